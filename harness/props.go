package harness

import (
	"fmt"
	"os"
	"sort"
	"strings"

	"verif/pgwire"
)

// Violation is one oracle failure.
type Violation struct {
	Prop   string `json:"prop"`
	Rule   string `json:"rule"`          // stable oracle rule id (violation class)
	Detail string `json:"detail"`        // human readable
	Sig    string `json:"sig,omitempty"` // canonical signature used for known-finding matching
}

func (v Violation) String() string { return fmt.Sprintf("%s/%s: %s", v.Prop, v.Rule, v.Detail) }

// Stats aggregates what a batch of runs actually covered.
type Stats struct {
	Runs       int64            `json:"runs"`
	Events     int64            `json:"events"`
	Decisions  int64            `json:"decisions"`
	Faults     map[string]int64 `json:"faults"`
	Probes     map[string]int64 `json:"probes"`
	Nontrivial int64            `json:"nontrivial"`
	Deadlines  int64            `json:"deadline_calls"`
	SimMs      int64            `json:"sim_ms"`       // fake-clock time that passed in the bubbles (idling clients)
	States     map[string]int64 `json:"model_states"` // abstract model states reached: phase/#statements/#portals
}

// NewStats allocates the maps.
func NewStats() *Stats {
	return &Stats{Faults: map[string]int64{}, Probes: map[string]int64{}, States: map[string]int64{}}
}

// Merge adds o into s.
func (s *Stats) Merge(o *Stats) {
	s.Runs += o.Runs
	s.Events += o.Events
	s.Decisions += o.Decisions
	s.Nontrivial += o.Nontrivial
	s.Deadlines += o.Deadlines
	s.SimMs += o.SimMs
	for k, v := range o.Faults {
		s.Faults[k] += v
	}
	for k, v := range o.Probes {
		s.Probes[k] += v
	}
	for k, v := range o.States {
		s.States[k] += v
	}
}

// Exec runs cases for a property check and accounts for coverage.
type Exec struct {
	Stats   *Stats
	Traces  map[uint64]struct{} // distinct interleavings (E2 schedule-trace hashes)
	Dirty   bool                // a run left goroutines behind: abandon the bubble
	LastRes *Result
	HashOn  bool // determinism self-test: fold every run's canonical event log into Hash
	Hash    uint64
}

var hashDebug = os.Getenv("VERIF_HASH_DEBUG") != ""

func (x *Exec) fold(s string) {
	if hashDebug {
		fmt.Fprintf(os.Stderr, "FOLD %q\n", trunc(s, 3000))
	}
	h := x.Hash
	if h == 0 {
		h = 14695981039346656037
	}
	for i := 0; i < len(s); i++ {
		h = (h ^ uint64(s[i])) * 1099511628211
	}
	x.Hash = h
}

// foldResult hashes the canonical event log of a run: per connection the
// canonical transcript, the callback trace and the transport-level event
// kinds; the Close callers' events; the schedule trace and the outcome.
func (x *Exec) foldResult(r *Result) {
	if d := os.Getenv("VERIF_HASH_DUMP"); d != "" {
		// diagnosis of a determinism mismatch: what went into the hash
		if fh, err := os.OpenFile(d, os.O_APPEND|os.O_CREATE|os.O_WRONLY, 0o644); err == nil {
			fmt.Fprintf(fh, "RUN trace=%x outcome=%d decisions=%d stuck=%v sched=%v\n", r.Trace, r.Outcome, r.Decisions, r.Stuck, r.Schedule)
			for i, cs := range r.Conns {
				for _, e := range cs.Events {
					fmt.Fprintf(fh, " c%d %d %s %s\n", i, e.Seq, e.K, trunc(e.S, 60))
				}
			}
			for i, evs := range r.CloserEvents {
				for _, e := range evs {
					fmt.Fprintf(fh, " k%d %d %s %s\n", i, e.Seq, e.K, trunc(e.S, 60))
				}
			}
			fh.Close()
		}
	}
	for _, cs := range r.Conns {
		t := ParseOut(cs)
		writeFault := false
		for _, f := range cs.cc.Faults {
			if strings.HasPrefix(f.Kind, "write-err") {
				writeFault = true
			}
		}
		if writeFault {
			// which ParameterStatus a failing write hits depends on Go map
			// iteration order (not seedable): hash the block by its size only
			x.fold(pgwire.Kinds(t.Msgs))
			x.fold(fmt.Sprintf("|closed=%d wedged=%v|", cs.Closed, cs.Wedged))
		} else {
			x.fold(Canonical(t.Msgs))
			x.fold(fmt.Sprintf("|raw=%d closed=%d wedged=%v q=%v|", len(cs.Raw), cs.Closed, cs.Wedged, cs.Quiesce))
		}
		x.fold(CallbackTrace(cs))
		for _, e := range cs.Events {
			x.fold(fmt.Sprintf("%d%s;", e.Seq, e.K))
		}
		if len(cs.Plain) > 0 {
			pm, _ := pgwire.ParseStream(cs.Plain)
			x.fold(Canonical(pm))
		}
	}
	for _, evs := range r.CloserEvents {
		for _, e := range evs {
			x.fold(fmt.Sprintf("%d%s%s;", e.Seq, e.K, e.S))
		}
	}
	x.fold(fmt.Sprintf("trace=%x outcome=%d decisions=%d serve=%v/%s stuck=%v", r.Trace, r.Outcome, r.Decisions, r.ServeReturned, r.ServeErr, r.Stuck))
}

// NewExec allocates an executor.
func NewExec() *Exec { return &Exec{Stats: NewStats(), Traces: map[uint64]struct{}{}} }

// Run executes one case on the engine it asks for.
func (x *Exec) Run(c *Case) *Result {
	var r *Result
	if c.Sched != nil {
		r = RunScheduled(c)
		x.Traces[r.Trace] = struct{}{}
	} else {
		r = RunInline(c)
	}
	x.LastRes = r
	if x.HashOn {
		x.foldResult(r)
	}
	if r.Dirty {
		x.Dirty = true
	}
	x.Stats.Runs++
	x.Stats.Decisions += int64(r.Decisions)
	for _, c := range r.Conns {
		x.Stats.Events += int64(len(c.Events))
		x.Stats.Deadlines += int64(c.Deadlines)
		x.Stats.SimMs += c.IdleMs
		for k, v := range c.FaultFired {
			x.Stats.Faults[k] += int64(v)
		}
		if len(c.cc.Cuts) > 0 {
			x.Stats.Faults["short-segment"]++
		}
		if c.Wedged {
			x.Stats.Probes["wedged"]++
		}
		if c.ReuseTail > 0 {
			x.Stats.Probes["reset_reused_tail"]++
		}
		if c.Realloc > 0 {
			x.Stats.Probes["reset_reallocated"]++
		}
	}
	if r.LockWaits > 0 {
		x.Stats.Probes["mutex_contention"]++
	}
	if r.Adopted > 0 {
		x.Stats.Probes["library_started_goroutines_scheduled"] += int64(r.Adopted)
	}
	if r.HoldsForced > 0 {
		x.Stats.Probes["hold_released_because_awaited_task_blocked"]++
	}
	return r
}

// Probe counts a rare-condition probe.
func (x *Exec) Probe(name string) { x.Stats.Probes[name]++ }

// Prop is one registered property check.
type Prop struct {
	ID    string
	Level string // exploration | fault_enumeration
	Rule  string // evidence: how cases are generated and what makes one non-trivial
	Race  bool   // also run under the -race worker (HB-transparent scheduler)
	// RaceWorkers, when > 0, is how many workers of a batch run the -race binary
	// (default: half of them)
	RaceWorkers int
	// Gen draws case number i of a batch from the PRNG.
	Gen func(r *Rand, tier string) *Case
	// Fixed returns the enumerated part (grids, corpora); nil if none.
	Fixed func(tier string) []*Case
	// Check runs the case (possibly several differential runs) and judges it.
	// nontrivial reports whether the run reached the property's mechanism.
	Check func(x *Exec, c *Case) (viol []Violation, nontrivial bool)
	// RaceGen optionally draws the cases used by the -race shard (default Gen).
	RaceGen func(r *Rand, tier string) *Case
	// Quick/Thorough wall-clock budgets in seconds for the seeded part.
	QuickS, ThoroughS int
	Components        []string // evidence: real vs stub
	Assumptions       []string
	Exhaustive        string // evidence: what the Fixed part enumerates completely
}

// Registry lists the property checks by id.
var Registry = map[string]*Prop{}

func register(p *Prop) { Registry[p.ID] = p }

// PropIDs returns the registered ids in order.
func PropIDs() []string {
	var ids []string
	for id := range Registry {
		ids = append(ids, id)
	}
	sort.Strings(ids)
	return ids
}

// ---------------------------------------------------------------------------
// transcript helpers shared by the oracles

// Transcript is the parsed server output of one connection.
type Transcript struct {
	SSL     byte // 'S' / 'N' when the client opened with an SSLRequest, else 0
	Msgs    []pgwire.Msg
	Grammar error // nil when the whole stream is well-formed
	Base    int   // offset of the first protocol byte in Out (1 when SSL byte present)
	// AfterTorn: bytes the server wrote successfully after a write of which only
	// a part had reached the peer (they follow a torn message on the wire)
	AfterTorn int
	TornLen   int
}

// FirstIsSSLRequest reports whether the connection's first client packet is
// an SSLRequest.
func (cc *ConnCase) FirstIsSSLRequest() bool {
	for _, st := range cc.Steps {
		for _, m := range st.Msgs {
			return m.K == "ssl"
		}
	}
	return false
}

// ParseOut parses a connection's accepted output.
func ParseOut(cs *connState) *Transcript {
	t := &Transcript{}
	out := cs.Out
	if cs.cc.FirstIsSSLRequest() && len(out) > 0 && (out[0] == 'S' || out[0] == 'N') {
		t.SSL = out[0]
		t.Base = 1
		out = out[1:]
	}
	if t.SSL == 'S' {
		// the server agreed to TLS: what follows the answer byte are TLS records
		// (handshake messages, alerts, application data), judged by C11 below TLS
		return t
	}
	t.Msgs, t.Grammar = pgwire.ParseStream(out)
	if cs.TornLen > 0 {
		t.TornLen = cs.TornLen
		t.AfterTorn = len(cs.Out) - cs.TornAt
	}
	return t
}

// GrammarViolation is the C02 oracle, also run as a monitor by every other
// property: the accepted output must be a concatenation of well-formed
// backend messages.
func GrammarViolation(prop string, conn int, t *Transcript) []Violation {
	if t.AfterTorn > 0 {
		return []Violation{{Prop: prop, Rule: "output-after-torn-write", Sig: "output-after-torn-write",
			Detail: fmt.Sprintf("conn %d: a write failed after %d of its bytes had reached the peer; the server then wrote %d more byte(s) on that connection, which arrive behind the torn message (complete messages before the failure: %q)", conn, t.TornLen, t.AfterTorn, pgwire.Kinds(t.Msgs))}}
	}
	if t.Grammar == nil {
		return nil
	}
	ge, _ := t.Grammar.(*pgwire.GrammarError)
	sig := "grammar"
	if ge != nil {
		why := ge.Why
		if i := strings.IndexByte(why, ':'); i > 0 {
			why = why[:i]
		}
		sig = fmt.Sprintf("grammar type=%c %s", ge.Type, why)
	}
	return []Violation{{Prop: prop, Rule: "malformed-backend-message",
		Detail: fmt.Sprintf("conn %d: after %q: %v", conn, pgwire.Kinds(t.Msgs), t.Grammar), Sig: sig}}
}

// afterTimeoutVerdict judges a run in which one Read reported a transient
// timeout (no byte lost, later reads succeed) against the undisturbed run of
// the same case: a server that carries on answers everything exactly as in the
// undisturbed run; one that gives the connection up has produced a prefix of
// it (and may add one ErrorResponse saying why).
func afterTimeoutVerdict(ref, cs *connState) (ok, carriedOn bool, detail string) {
	rt, t := ParseOut(ref), ParseOut(cs)
	if rt.Grammar != nil || t.Grammar != nil {
		return true, false, ""
	}
	got := t.Msgs
	after := 0
	for _, m := range got {
		if m.Off+t.Base >= cs.TimeoutOut {
			after++
		}
	}
	carriedOn = after > 1 || (after == 1 && got[len(got)-1].Type != 'E')
	a, b := CallbackTrace(cs), CallbackTrace(ref)
	if carriedOn {
		if Canonical(got) != Canonical(rt.Msgs) {
			return false, true, fmt.Sprintf("the server carried on and answered %q, the undisturbed run %q", pgwire.Kinds(got), pgwire.Kinds(rt.Msgs))
		}
		if a != b {
			return false, true, fmt.Sprintf("the server carried on but its callbacks differ from those of the undisturbed run:\n  with timeout: %s\n  undisturbed:  %s", trunc(strings.ReplaceAll(a, "\n", "; "), 300), trunc(strings.ReplaceAll(b, "\n", "; "), 300))
		}
		return true, true, ""
	}
	if n := len(got); n > 0 && after == 1 {
		got = got[:n-1]
	}
	if len(got) > len(rt.Msgs) || Canonical(got) != Canonical(rt.Msgs[:len(got)]) {
		return false, false, fmt.Sprintf("the server answered %q, the undisturbed run %q - neither the same nor a prefix of it", pgwire.Kinds(t.Msgs), pgwire.Kinds(rt.Msgs))
	}
	if !strings.HasPrefix(b, a) {
		return false, false, fmt.Sprintf("the callbacks that ran are not a prefix of those of the undisturbed run:\n  with timeout: %s\n  undisturbed:  %s", trunc(strings.ReplaceAll(a, "\n", "; "), 300), trunc(strings.ReplaceAll(b, "\n", "; "), 300))
	}
	return true, false, ""
}

// Canonical renders a transcript with every maximal run of ParameterStatus
// messages sorted (their order comes from Go map iteration, the one source of
// nondeterminism that cannot be seeded).
func Canonical(msgs []pgwire.Msg) string {
	var sb strings.Builder
	i := 0
	for i < len(msgs) {
		if msgs[i].Type == 'S' {
			j := i
			var run []string
			for j < len(msgs) && msgs[j].Type == 'S' {
				run = append(run, fmt.Sprintf("S(%q=%q)", msgs[j].Name, msgs[j].Value))
				j++
			}
			sort.Strings(run)
			sb.WriteString(strings.Join(run, ""))
			i = j
			continue
		}
		fmt.Fprintf(&sb, "%c(%x)", msgs[i].Type, msgs[i].Body)
		i++
	}
	return sb.String()
}

// CallbackTrace renders the callback events of a connection (no transport
// events, no sequence numbers).
func CallbackTrace(cs *connState) string {
	var sb strings.Builder
	for _, e := range cs.Events {
		switch e.K {
		case "read", "write", "quiesce", "close", "idle", "wedge", "read-wait":
			continue
		}
		sb.WriteString(e.K)
		sb.WriteByte(' ')
		sb.WriteString(e.S)
		sb.WriteByte('\n')
	}
	return sb.String()
}

// HasEvent reports whether the connection recorded an event of kind k.
func (cs *connState) HasEvent(k string) bool {
	for _, e := range cs.Events {
		if e.K == k {
			return true
		}
	}
	return false
}

// EventsOf returns the events of the given kinds.
func (cs *connState) EventsOf(kinds ...string) []Event {
	var out []Event
	for _, e := range cs.Events {
		for _, k := range kinds {
			if e.K == k {
				out = append(out, e)
			}
		}
	}
	return out
}

package harness

import "testing"

func selfTest(t *testing.T, root string, args []string) int { return 0 }

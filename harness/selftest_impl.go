package harness

import (
	"bytes"
	"fmt"
	"os"
	"os/exec"
	"sort"
	"strings"
	"sync"
	"testing"
)

// HashMain prints, for the first n seeded cases of a property, the hash of the
// canonical event log of everything its check ran. It is the child side of the
// determinism self-test.
// race selects the cases of the -race shard (RaceGen) where a property has its own.
func HashMain(t *testing.T, p *Prop, seed uint64, tier string, n int, race bool) int {
	if err := CheckEncodableTable(); err != nil {
		fmt.Fprintln(os.Stderr, "HARNESS-ERROR:", err)
		return 2
	}
	idx := 0
	x := NewExec()
	var out bytes.Buffer
	runInBubbles(t, 64, func(_ *Exec) bool {
		if idx >= n {
			return false
		}
		c := MakeCase(p, seed, tier, CaseRef{Index: uint64(idx), Race: race})
		hx := NewExec()
		hx.HashOn = true
		viol, _ := p.Check(hx, c)
		if hx.Dirty {
			x.Dirty = true
		}
		fmt.Fprintf(&out, "%s %d %016x v=%d\n", p.ID, idx, hx.Hash, len(viol))
		idx++
		return true
	}, x)
	os.Stdout.Write(out.Bytes())
	return 0
}

// selfTest proves determinism: for every property, the first n seeded cases
// are run in separate processes at GOMAXPROCS 1, 4 and 16, twice each (and in
// the -race build for the properties that use it); the per-case hashes of the
// canonical event logs must be identical everywhere. A mismatch is harness
// trouble (exit 2), never a violation.
func selfTest(t *testing.T, root string, args []string) int {
	n := 40
	for i, a := range args {
		if a == "--n" && i+1 < len(args) {
			fmt.Sscanf(args[i+1], "%d", &n)
		}
	}
	var only []string
	for _, a := range args {
		if strings.HasPrefix(a, "C") {
			only = append(only, a)
		}
	}
	ids := PropIDs()
	if len(only) > 0 {
		ids = only
	}
	type cfg struct {
		procs string
		race  bool
		rep   int
	}
	var mu sync.Mutex
	bad := 0
	total := 0
	var wg sync.WaitGroup
	sem := make(chan struct{}, 8)
	for _, id := range ids {
		p := Registry[id]
		if p == nil || p.Gen == nil {
			continue
		}
		cfgs := []cfg{{"1", false, 0}, {"1", false, 1}, {"4", false, 0}, {"4", false, 1}, {"16", false, 0}, {"16", false, 1}}
		if p.Race {
			cfgs = append(cfgs, cfg{"4", true, 0}, cfg{"16", true, 1})
		}
		outs := make([]string, len(cfgs))
		for ci, c := range cfgs {
			wg.Add(1)
			go func(ci int, c cfg) {
				defer wg.Done()
				sem <- struct{}{}
				defer func() { <-sem }()
				args := []string{"-test.run", "^TestEntry$", "-test.timeout", "0", "hash", id, fmt.Sprint(n)}
				if c.race && p.RaceGen != nil {
					// the -race configurations run what the race shard runs
					args = append(args, "race")
				}
				cmd := exec.Command(selfExe(c.race), args...)
				cmd.Env = append(os.Environ(), "GOMAXPROCS="+c.procs, "VERIF_SEED=1")
				if c.race {
					cmd.Env = append(cmd.Env, "GORACE=log_path=/dev/null halt_on_error=0 exitcode=0")
				}
				b, err := cmd.CombinedOutput()
				if err != nil {
					b = append(b, []byte("\nERROR: "+err.Error())...)
				}
				var lines []string
				for _, ln := range strings.Split(string(b), "\n") {
					if strings.HasPrefix(ln, id+" ") || strings.HasPrefix(ln, "ERROR") {
						lines = append(lines, ln)
					}
				}
				sort.Strings(lines)
				outs[ci] = strings.Join(lines, "\n")
			}(ci, c)
		}
		wg.Wait()
		mu.Lock()
		ok := true
		for ci := 1; ci < len(outs); ci++ {
			base := 0
			if cfgs[ci].race && p.RaceGen != nil {
				// own case set: the race configurations are compared with each other
				base = len(cfgs) - 2
				if ci == base {
					continue
				}
			}
			if outs[ci] != outs[base] {
				ok = false
				a, b := strings.Split(outs[base], "\n"), strings.Split(outs[ci], "\n")
				for k := 0; k < len(a) && k < len(b); k++ {
					if a[k] != b[k] {
						fmt.Printf("DETERMINISM MISMATCH %s: GOMAXPROCS=%s race=%v rep=%d: %q vs %q\n", id, cfgs[ci].procs, cfgs[ci].race, cfgs[ci].rep, a[k], b[k])
						break
					}
				}
				if len(a) != len(b) {
					fmt.Printf("DETERMINISM MISMATCH %s: %d vs %d lines (config %d)\n", id, len(a), len(b), ci)
				}
			}
		}
		nl := len(strings.Split(outs[0], "\n"))
		total += nl
		if !ok || nl < n {
			bad++
			if nl < n {
				fmt.Printf("selftest %s: only %d of %d case hashes produced:\n%s\n", id, nl, n, trunc(outs[0], 600))
			}
		} else {
			fmt.Printf("selftest %s: %d cases x %d process configurations identical\n", id, n, len(cfgs))
		}
		mu.Unlock()
	}
	if bad > 0 {
		fmt.Printf("selftest: %d property engine(s) NOT deterministic\n", bad)
		return 2
	}
	fmt.Printf("selftest: all %d property engines deterministic over %d case hashes\n", len(ids), total)
	return 0
}

//go:build race

package harness

import "runtime"

// RaceEnabled reports whether the binary was built with -race.
const RaceEnabled = true

func raceDisable() { runtime.RaceDisable() }
func raceEnable()  { runtime.RaceEnable() }

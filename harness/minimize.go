package harness

import "sort"

// Minimize is a structural delta-debugger over a Case: it repeatedly tries
// simpler variants (fewer connections, steps, messages, programs, statements,
// ops, faults, cuts, schedule entries; shorter strings) and keeps a variant
// whenever test reports that the same violation class still reproduces.
func Minimize(c *Case, test func(*Case) bool, maxTests int) *Case {
	best := c.Clone()
	tests := 0
	try := func(mut func(*Case) bool) bool {
		if tests >= maxTests {
			return false
		}
		cand := best.Clone()
		if !mut(cand) {
			return false
		}
		tests++
		if test(cand) {
			best = cand
			return true
		}
		return false
	}
	for round := 0; round < 6; round++ {
		progress := false
		// drop whole connections (keep at least one)
		for i := len(best.Conns) - 1; i >= 0 && len(best.Conns) > 1; i-- {
			i := i
			if try(func(c *Case) bool {
				if len(c.Conns) <= 1 || i >= len(c.Conns) {
					return false
				}
				c.Conns = append(c.Conns[:i], c.Conns[i+1:]...)
				if c.Sched != nil {
					c.Sched.Schedule = nil
					c.Sched.Holds = nil
				}
				return true
			}) {
				progress = true
			}
		}
		// drop closers
		if best.Sched != nil {
			for i := len(best.Sched.Closers) - 1; i >= 0; i-- {
				i := i
				if try(func(c *Case) bool {
					if i >= len(c.Sched.Closers) || len(c.Sched.Closers) <= 1 {
						return false
					}
					c.Sched.Closers = append(c.Sched.Closers[:i], c.Sched.Closers[i+1:]...)
					return true
				}) {
					progress = true
				}
			}
		}
		for ci := range best.Conns {
			ci := ci
			// faults
			for fi := len(best.Conns[ci].Faults) - 1; fi >= 0; fi-- {
				fi := fi
				if try(func(c *Case) bool {
					f := c.Conns[ci].Faults
					if fi >= len(f) {
						return false
					}
					c.Conns[ci].Faults = append(f[:fi], f[fi+1:]...)
					return true
				}) {
					progress = true
				}
			}
			// segmentation
			if len(best.Conns[ci].Cuts) > 0 {
				if try(func(c *Case) bool { c.Conns[ci].Cuts = nil; return true }) {
					progress = true
				}
			}
			// steps from the end, then single messages (never the first step's
			// first message: the startup packet)
			for si := len(best.Conns[ci].Steps) - 1; si >= 1; si-- {
				si := si
				if try(func(c *Case) bool {
					st := c.Conns[ci].Steps
					if si >= len(st) {
						return false
					}
					c.Conns[ci].Steps = append(st[:si], st[si+1:]...)
					return true
				}) {
					progress = true
					continue
				}
				for mi := len(best.Conns[ci].Steps[si].Msgs) - 1; mi >= 0; mi-- {
					mi := mi
					if try(func(c *Case) bool {
						if si >= len(c.Conns[ci].Steps) {
							return false
						}
						ms := c.Conns[ci].Steps[si].Msgs
						if mi >= len(ms) || len(ms) <= 1 {
							return false
						}
						c.Conns[ci].Steps[si].Msgs = append(ms[:mi], ms[mi+1:]...)
						return true
					}) {
						progress = true
					}
				}
			}
			// merge steps (pipelining) — simpler delivery
			if len(best.Conns[ci].Steps) > 2 {
				if try(func(c *Case) bool {
					st := c.Conns[ci].Steps
					merged := Step{}
					for _, s := range st[1:] {
						merged.Msgs = append(merged.Msgs, s.Msgs...)
					}
					c.Conns[ci].Steps = []Step{st[0], merged}
					return true
				}) {
					progress = true
				}
			}
		}
		// programs: drop unused, drop statements, drop ops
		keys := make([]string, 0, len(best.Programs))
		for k := range best.Programs {
			keys = append(keys, k)
		}
		sort.Strings(keys)
		for _, k := range keys {
			k := k
			if try(func(c *Case) bool { delete(c.Programs, k); return true }) {
				progress = true
				continue
			}
			p := best.Programs[k]
			if p == nil {
				continue
			}
			for si := len(p.Stmts) - 1; si >= 0; si-- {
				si := si
				if len(best.Programs[k].Stmts) > 1 {
					if try(func(c *Case) bool {
						s := c.Programs[k].Stmts
						if si >= len(s) || len(s) <= 1 {
							return false
						}
						c.Programs[k].Stmts = append(s[:si], s[si+1:]...)
						return true
					}) {
						progress = true
						continue
					}
				}
				if si >= len(best.Programs[k].Stmts) {
					continue
				}
				for oi := len(best.Programs[k].Stmts[si].Ops) - 1; oi >= 0; oi-- {
					oi := oi
					if try(func(c *Case) bool {
						if si >= len(c.Programs[k].Stmts) {
							return false
						}
						ops := c.Programs[k].Stmts[si].Ops
						if oi >= len(ops) {
							return false
						}
						c.Programs[k].Stmts[si].Ops = append(ops[:oi], ops[oi+1:]...)
						return true
					}) {
						progress = true
					}
				}
			}
		}
		// schedule: truncate, then zero entries
		if best.Sched != nil && len(best.Sched.Schedule) > 0 {
			for len(best.Sched.Schedule) > 0 {
				half := len(best.Sched.Schedule) / 2
				if !try(func(c *Case) bool { c.Sched.Schedule = c.Sched.Schedule[:half]; return true }) {
					break
				}
				progress = true
			}
			for i := range best.Sched.Schedule {
				i := i
				if best.Sched.Schedule[i] == 0 {
					continue
				}
				if try(func(c *Case) bool {
					if i >= len(c.Sched.Schedule) {
						return false
					}
					c.Sched.Schedule[i] = 0
					return true
				}) {
					progress = true
				}
			}
		}
		// server options
		if try(func(c *Case) bool {
			if len(c.Server.MW) == 0 {
				return false
			}
			c.Server.MW = nil
			return true
		}) {
			progress = true
		}
		if try(func(c *Case) bool {
			if c.Server.Params == nil && c.Server.Version == "" && !c.Server.HasParams {
				return false
			}
			c.Server.Params, c.Server.Params2, c.Server.Version, c.Server.HasParams = nil, nil, "", false
			return true
		}) {
			progress = true
		}
		if !progress || tests >= maxTests {
			break
		}
	}
	return best
}

package harness

import (
	"fmt"
	"strings"

	"verif/pgwire"
)

var e1Components = []string{
	"real: NewServer/options, Serve accept loop, serve(), Handshake, auth strategies, parameter exchange, session middleware, command loop and every message handler, buffer.Reader/Writer, statement/portal caches, DataWriter, COPY readers, ErrorCode, pgx pgtype codecs",
	"stub: net.Listener and net.Conn (SimListener/SimConn: scripted inline client, segmentation, fault plan, wire tap), slog handler (discard), user callbacks (scripted handler programs that record what they observe)",
}

var commonAssumptions = []string{
	"Go runtime and testing/synctest of go1.26.8; the library is built from /repo's working tree copied to a scratch directory with schedule points spliced in (cmd/instrument) and -tags verif",
	"the harness's own grammar, codecs and reference model (package pgwire and harness/model.go), which import nothing from the library",
	"sampling: a clean batch is evidence, not proof",
}

// connEnded checks bounded liveness of one connection: once its input ended
// the server closed it and stopped using the transport.
func connEnded(prop string, i int, cs *connState) []Violation {
	var v []Violation
	if ld := cs.rt.lockDead; ld != "" && cs.Started && cs.Closed == 0 {
		return []Violation{{Prop: prop, Rule: "lock-deadlock", Sig: "lock-deadlock", Detail: fmt.Sprintf("conn %d: blocked forever acquiring a library mutex at %s that is held by a connection which no longer runs", i, ld)}}
	}
	if cs.Wedged {
		v = append(v, Violation{Prop: prop, Rule: "wedge", Detail: fmt.Sprintf("conn %d: server keeps using the transport after it ended (%d operations)", i, cs.AfterEnd), Sig: "wedge"})
	}
	if cs.Started && cs.ClosedBefore == 0 && !cs.cc.NoEOF && !cs.Wedged {
		v = append(v, Violation{Prop: prop, Rule: "not-closed", Detail: fmt.Sprintf("conn %d: input ended but the server never closed the connection", i), Sig: "not-closed"})
	}
	return v
}

// modelCheck runs the case once on its engine and compares every connection
// that has no transport fault with the reference model.
func modelCheck(prop string, x *Exec, c *Case) ([]Violation, *Result, []*MatchResult) {
	r := x.Run(c)
	var viol []Violation
	if r.BuildErr != "" {
		return []Violation{{Prop: prop, Rule: "harness-build", Detail: r.BuildErr}}, r, nil
	}
	mrs := make([]*MatchResult, len(r.Conns))
	for i, cs := range r.Conns {
		t := ParseOut(cs)
		viol = append(viol, GrammarViolation(prop, i, t)...)
		viol = append(viol, connEnded(prop, i, cs)...)
		cs.checkRetained("end of connection")
		if len(cs.Corrupt) > 0 {
			viol = append(viol, Violation{Prop: prop, Rule: "retained-data-overwritten", Detail: cs.Corrupt[0], Sig: "retained " + firstWords(cs.Corrupt[0], 1)})
		}
		if len(cs.Incons) > 0 {
			viol = append(viol, Violation{Prop: prop, Rule: "scan-not-repeatable", Detail: fmt.Sprintf("conn %d: %s", i, cs.Incons[0]), Sig: "scan-not-repeatable"})
		}
		intrusive := false
		for _, f := range cs.cc.Faults {
			// (an error reported by Close and a slow peer do not change what the
			// connection has to do)
			if f.Kind != "close-err" && f.Kind != "write-slow" {
				intrusive = true
			}
		}
		if intrusive || t.Grammar != nil {
			continue
		}
		mr := MatchConn(c, cs, t)
		mrs[i] = mr
		for st := range mr.States {
			x.Stats.States[st]++
		}
		if !mr.OK {
			viol = append(viol, Violation{Prop: prop, Rule: mr.Rule, Detail: fmt.Sprintf("conn %d: %s", i, mr.Detail), Sig: mr.Sig})
		}
	}
	if !r.ServeReturned || r.ServeErr != "" {
		viol = append(viol, Violation{Prop: prop, Rule: "serve-return", Detail: fmt.Sprintf("Serve returned=%v err=%q after Close", r.ServeReturned, r.ServeErr), Sig: "serve-return"})
	}
	return viol, r, mrs
}

func countKind(cs *connState, k string) int {
	n := 0
	for _, e := range cs.Events {
		if e.K == k {
			n++
		}
	}
	return n
}

// smallLimit draws a message-size limit. The default (0 => 16 MiB) makes every
// connection allocate and clear a 16 MiB read buffer (about a millisecond), so
// it is used for well under 1 % of the runs only.
// units scales the history length with the tier.
func units(tier string, n int) int {
	if tier == "thorough" {
		return n + 5
	}
	return n
}

func smallLimit(r *Rand) int {
	if r.Chance(1, 150) {
		return r.PickInt(0, -1)
	}
	return r.PickInt(64, 256, 1000, 4096, 5000, 65536)
}

// genC05Close (engine E2): Server.Close is pinned inside a running simple
// query of 1-3 statements: Close begins once the first statement callback
// runs, and the handler does not get past its first yield before Close has
// signalled the shutdown. The query was admitted, so it is answered in full.
func genC05Close(r *Rand) *Case {
	c := &Case{Variant: "close-during-query", Server: ServerCfg{Limit: 4096}, Programs: map[string]*Program{}}
	n := r.Range(1, 3)
	var stmts []*StmtProg
	for i := 0; i < n; i++ {
		sp := &StmtProg{Cols: []ColSpec{{Name: "a", OID: pgwire.OIDText}}}
		sp.Ops = append(sp.Ops, Op{K: "yield"})
		for k := r.Intn(3); k > 0; k-- {
			sp.Ops = append(sp.Ops, Op{K: "row", Row: []Val{{G: "string", S: fmt.Sprintf("s%d", i)}}})
		}
		if r.Bool() {
			sp.Ops = append(sp.Ops, Op{K: "yield"})
		}
		sp.Ops = append(sp.Ops, Op{K: "complete", Tag: fmt.Sprintf("TAG %d", i)})
		stmts = append(stmts, sp)
	}
	c.Programs["multi"] = &Program{Stmts: stmts}
	c.Expect = map[string]any{"statements": n}
	c.Conns = []ConnCase{{Steps: []Step{{Msgs: []pgwire.FMsg{startupMsg("u", "d")}}, {Msgs: []pgwire.FMsg{{K: "Q", S1: "multi"}}}}, NoEOF: true}}
	c.Sched = &SchedCase{Strategy: r.Pick("uniform", "pct"), Depth: 1, MaxSteps: 400000, Closers: []Closer{{Calls: r.Range(1, 2)}},
		Holds: []Hold{{Task: 2, Point: "closer.start", Until: 1, UntilPoint: "cb.stmt"}, {Task: 1, Point: "op.yield", Until: 2, UntilPoint: "close.signalled"}}}
	return c
}

func checkC05Close(x *Exec, c *Case) ([]Violation, bool) {
	r := x.Run(c)
	if c.Sched != nil {
		c.Sched.Schedule = r.Schedule
	}
	cs := r.Conns[0]
	t := ParseOut(cs)
	viol := GrammarViolation("C05", 0, t)
	p := c.Programs["multi"]
	if p == nil || r.HoldsForced > 0 || r.Outcome != RunIdle || len(cs.cc.Faults) > 0 {
		x.Probe("close_during_query_inconclusive")
		return viol, false
	}
	n := len(p.Stmts)
	for _, sp := range p.Stmts {
		done := 0
		for _, op := range sp.Ops {
			switch op.K {
			case "complete":
				done++
			case "row", "yield":
			default:
				return viol, false
			}
		}
		if done != 1 {
			return viol, false
		}
	}
	i := 0
	for i < len(t.Msgs) && t.Msgs[i].Type != 'Z' {
		i++
	}
	if i == len(t.Msgs) || len(cs.EventsOf("stmt")) == 0 {
		return viol, false
	}
	x.Probe("close_during_query")
	add := func(rule, detail string) {
		viol = append(viol, Violation{Prop: "C05", Rule: rule, Sig: rule, Detail: "conn 0: Server.Close ran while the query was being served: " + detail + fmt.Sprintf(" (server output %q)", pgwire.Kinds(t.Msgs))})
	}
	var tags []string
	errs, ready := 0, 0
	for _, m := range t.Msgs[i+1:] {
		switch m.Type {
		case 'Z':
			ready++
		case 'C':
			if ready > 0 || errs > 0 {
				add("result-after-end", "a CommandComplete follows the end of its query cycle")
			}
			tags = append(tags, m.Tag)
		case 'E':
			if ready == 0 {
				errs++
			}
		}
	}
	for k, tg := range tags {
		if tg != fmt.Sprintf("TAG %d", k) {
			add("results-out-of-order", fmt.Sprintf("CommandComplete #%d carries tag %q", k, tg))
		}
	}
	if errs == 0 && len(tags) < n {
		add("statements-skipped-silently", fmt.Sprintf("only %d of %d statements were answered and no ErrorResponse says why", len(tags), n))
	}
	if ready != 1 {
		add("no-ready-for-query", fmt.Sprintf("the admitted query was answered with %d ReadyForQuery", ready))
	}
	return viol, true
}

// genC05Cancel: one simple query of 2-5 plain statements; one of them cancels
// the session context (before or after its own completion).
func genC05Cancel(r *Rand) *Case {
	c := &Case{Variant: "session-cancelled-mid-query", Server: ServerCfg{Limit: 4096, MW: []MWSpec{{Cancel: true}}}, Programs: map[string]*Program{}}
	n := r.Range(2, 5)
	at := r.Intn(n)
	var stmts []*StmtProg
	for i := 0; i < n; i++ {
		// 0-3 text columns (a statement without columns writes rows without fields)
		nc := r.PickInt(1, 1, 1, 0, 2, 3)
		sp := &StmtProg{}
		for k := 0; k < nc; k++ {
			sp.Cols = append(sp.Cols, ColSpec{Name: fmt.Sprintf("a%d", k), OID: pgwire.OIDText})
		}
		mkRow := func() Op {
			row := make([]Val, nc)
			for k := range row {
				row[k] = Val{G: "string", S: fmt.Sprintf("s%d", i)}
			}
			return Op{K: "row", Row: row}
		}
		how := r.Intn(3) // 0: cancel first, 1: cancel after the completion, 2: while a value of a row is encoded
		if i == at && how == 0 {
			// (half of the handlers let simulated time pass right after the
			// cancellation and only then go on writing their result)
			sp.Ops = append(sp.Ops, Op{K: "cancel", Ms: r.PickInt(0, 0, 1, 50, 6000)})
		}
		rows := r.Intn(3)
		if i == at && how == 2 && nc > 0 && rows == 0 {
			rows = 1
		}
		hit := r.Intn(rows + 1)
		for k := 0; k < rows; k++ {
			op := mkRow()
			if i == at && how == 2 && nc > 0 && k == hit%rows {
				op.CancelIn = r.Range(1, nc)
			}
			sp.Ops = append(sp.Ops, op)
			if r.Chance(1, 3) {
				sp.Ops = append(sp.Ops, Op{K: "written"})
			}
		}
		if r.Bool() {
			sp.Ops = append(sp.Ops, Op{K: "written"})
		}
		sp.Ops = append(sp.Ops, Op{K: "complete", Tag: fmt.Sprintf("TAG %d", i)})
		if i == at && (how == 1 || (how == 2 && nc == 0)) {
			sp.Ops = append(sp.Ops, Op{K: "cancel"})
		}
		stmts = append(stmts, sp)
	}
	c.Programs["multi"] = &Program{Stmts: stmts}
	c.Programs["after"] = &Program{Stmts: []*StmtProg{{Cols: []ColSpec{{Name: "a", OID: pgwire.OIDText}}, Ops: []Op{{K: "complete", Tag: "AFTER"}}}}}
	msgs := []pgwire.FMsg{{K: "Q", S1: "multi"}}
	if r.Bool() {
		msgs = append(msgs, pgwire.FMsg{K: "Q", S1: "after"})
	}
	c.Expect = map[string]any{"statements": n}
	c.Conns = []ConnCase{{Steps: []Step{{Msgs: []pgwire.FMsg{startupMsg("u", "d")}}, {Msgs: msgs}}, Cuts: genCuts(r)}}
	return c
}

// checkC05Cancel: whatever an implementation does once the session context is
// cancelled, the cycle of the running query is either complete (every
// statement's CommandComplete, in order) or a prefix of complete results
// followed by exactly one ErrorResponse - and exactly one ReadyForQuery.
func checkC05Cancel(x *Exec, c *Case) ([]Violation, bool) {
	r := x.Run(c)
	cs := r.Conns[0]
	t := ParseOut(cs)
	viol := GrammarViolation("C05", 0, t)
	n := 0
	if p := c.Programs["multi"]; p != nil {
		n = len(p.Stmts)
		for _, sp := range p.Stmts {
			// (a shrunk case may leave the domain of this oracle: every statement
			// consists of rows and exactly one final completion)
			done := 0
			for _, op := range sp.Ops {
				switch op.K {
				case "complete":
					done++
				case "row", "cancel", "written":
				default:
					return viol, false
				}
			}
			if done != 1 {
				return viol, false
			}
		}
	}
	if n == 0 {
		return viol, false
	}
	add := func(rule, detail string) {
		viol = append(viol, Violation{Prop: "C05", Rule: rule, Sig: rule, Detail: "conn 0: " + detail + fmt.Sprintf(" (server output %q)", pgwire.Kinds(t.Msgs))})
	}
	// the cycle of the first query: everything after the startup's ReadyForQuery up to the next one
	i := 0
	for i < len(t.Msgs) && t.Msgs[i].Type != 'Z' {
		i++
	}
	if i == len(t.Msgs) {
		return viol, false // no session (judged elsewhere)
	}
	var tags []string
	errs, ready := 0, false
	for _, m := range t.Msgs[i+1:] {
		if m.Type == 'Z' {
			ready = true
			break
		}
		switch m.Type {
		case 'C':
			if errs > 0 {
				add("result-after-error", "a CommandComplete follows the ErrorResponse of the same query")
			}
			tags = append(tags, m.Tag)
		case 'E':
			errs++
		}
	}
	if !ready {
		if cs.Closed > 0 && errs <= 1 {
			return viol, true // the implementation ended the connection: not this rule's business
		}
		add("no-ready-for-query", "the query cycle does not end with ReadyForQuery")
		return viol, true
	}
	for k, tg := range tags {
		if tg != fmt.Sprintf("TAG %d", k) {
			add("results-out-of-order", fmt.Sprintf("CommandComplete #%d carries tag %q", k, tg))
		}
	}
	if errs > 1 {
		add("several-errors", fmt.Sprintf("%d ErrorResponses in one query cycle", errs))
	}
	if len(tags) < n && errs == 0 {
		add("statements-skipped-silently", fmt.Sprintf("only %d of %d statements were answered and no ErrorResponse says why", len(tags), n))
	}
	// the result writer stays a state machine whatever the context does: a row
	// reported as written is on the wire, a row reported as failed is not, and
	// Written() equals the rows written by that statement so far
	{
		okRows, okStmt := 0, 0
		for _, e := range cs.Events {
			switch {
			case e.K == "stmt":
				okStmt = 0
			case e.K == "op" && strings.HasSuffix(e.S, " row ok"):
				okRows++
				okStmt++
			case e.K == "op" && strings.Contains(e.S, " written "):
				var oi, w int
				if _, err := fmt.Sscanf(e.S, "%d written %d", &oi, &w); err == nil && w != okStmt {
					add("written-counter", fmt.Sprintf("Written() returned %d after %d successful Row call(s) of that statement", w, okStmt))
				}
			}
		}
		if d := strings.Count(pgwire.Kinds(t.Msgs), "D"); d != okRows {
			add("row-result-disagrees-with-wire", fmt.Sprintf("%d Row call(s) returned nil but %d DataRow(s) were sent", okRows, d))
		}
	}
	ran := 0
	for _, e := range cs.EventsOf("stmt") {
		if strings.HasPrefix(e.S, "multi#") {
			ran++
		}
	}
	if errs == 1 && ran > len(tags)+1 {
		add("statement-ran-after-error", fmt.Sprintf("%d statements ran although the cycle reported an error after %d results", ran, len(tags)))
	}
	// whatever follows the first cycle belongs to the optional second query
	// ("after": one CommandComplete AFTER, or one ErrorResponse) - nothing of the
	// first query may arrive once its ReadyForQuery is out
	rest := t.Msgs[i+1:]
	for k, m := range rest {
		if m.Type == 'Z' {
			rest = rest[k+1:]
			break
		}
	}
	sawReady := false
	for _, m := range rest {
		switch m.Type {
		case 'Z':
			sawReady = true
		case 'C':
			if m.Tag != "AFTER" {
				add("result-after-ready", fmt.Sprintf("CommandComplete %q arrived after the ReadyForQuery that ended its query", m.Tag))
			}
		case 'D':
			add("result-after-ready", "a DataRow arrived after the ReadyForQuery that ended its query")
		}
	}
	if len(rest) > 0 && !sawReady && cs.Closed == 0 {
		add("result-after-ready", "output follows the last ReadyForQuery")
	} else if len(rest) > 0 && rest[len(rest)-1].Type != 'Z' && cs.Closed == 0 {
		add("result-after-ready", "output follows the last ReadyForQuery")
	}
	return viol, ran > 0
}

// genC18Close (engine E2): Server.Close runs while the connection is open (it
// begins once the first statement callback runs); the client keeps sending
// messages of sizes around the allocation granule, which the server no longer
// serves. What the callbacks retained before stays intact.
func genC18Close(r *Rand) *Case {
	c := &Case{Variant: "server-closed-then-drained", Server: ServerCfg{Limit: r.PickInt(4096, 8192, 65536)}}
	c.Server.Auth = r.Pick("cleartext", "passthrough", "passthrough")
	genHistory(r, c, histOpts{simple: true, extended: true, params: true, retain: true, maxUnits: r.Range(1, 3)})
	cc := &c.Conns[0]
	cc.Cuts = nil
	for n := r.Range(2, 6); n > 0; n-- {
		size := r.PickInt(1, 40, 3000, 4090, 4096, c.Server.Limit-10)
		m := pgwire.FMsg{K: "Q", S1: "drained " + strings.Repeat(r.Pick("#", "\x00x", "z"), size)}
		if r.Chance(1, 3) {
			m = pgwire.FMsg{K: "d", Data: []byte(strings.Repeat("#", size))}
		}
		cc.Steps = append(cc.Steps, Step{Msgs: []pgwire.FMsg{m}})
	}
	c.Sched = &SchedCase{Strategy: r.Pick("uniform", "pct"), Depth: 1, MaxSteps: 400000, Closers: []Closer{{Calls: 1}},
		Holds: []Hold{{Task: 2, Point: "closer.start", Until: 1, UntilPoint: "cb.stmt"}}}
	return c
}

func checkC18Close(x *Exec, c *Case) ([]Violation, bool) {
	r := x.Run(c)
	if c.Sched != nil {
		c.Sched.Schedule = r.Schedule
	}
	var viol []Violation
	nt := false
	for i, cs := range r.Conns {
		t := ParseOut(cs)
		viol = append(viol, GrammarViolation("C18", i, t)...)
		cs.checkRetained("end of connection")
		if len(cs.Corrupt) > 0 {
			viol = append(viol, Violation{Prop: "C18", Rule: "retained-data-overwritten", Detail: "Server.Close ran while the connection was open, the client kept sending: " + cs.Corrupt[0], Sig: "retained " + firstWords(cs.Corrupt[0], 1)})
		}
		if len(cs.retainedVals) > 0 && len(r.CloserEvents) > 0 {
			nt = true
			x.Probe("retained_across_server_close")
		}
	}
	return viol, nt
}

// genC09BigRowCancel: a row of 20-70 KB is on its way to a slow peer when the
// session's context ends (a middleware-derived time limit). Whatever the
// server does about the cancellation, what it has put on the wire stays a
// sequence of complete messages.
func genC09BigRowCancel(r *Rand) *Case {
	c := &Case{Variant: "session-ends-during-row", Server: ServerCfg{Limit: 4096, MW: []MWSpec{{Cancel: true}}}, Programs: map[string]*Program{}}
	cols := []ColSpec{{Name: "a", OID: pgwire.OIDText}, {Name: "b", OID: pgwire.OIDInt4}}
	var ops []Op
	for n := r.Range(1, 3); n > 0; n-- {
		size := r.PickInt(10, 17000, 20000, 40000, 70000)
		ops = append(ops, Op{K: "row", Row: []Val{{G: "string", S: r.Ident(size)}, {G: "int32", I: int64(n)}}})
	}
	ops = append(ops, Op{K: "complete", Tag: "BIG"})
	c.Programs["big"] = &Program{Stmts: []*StmtProg{{Cols: cols, Ops: ops}}}
	c.Programs["after"] = &Program{Stmts: []*StmtProg{{Cols: cols[:1], Ops: []Op{{K: "complete", Tag: "AFTER"}}}}}
	msgs := []pgwire.FMsg{{K: "Q", S1: "big"}}
	if r.Bool() {
		msgs = []pgwire.FMsg{{K: "P", S1: "", S2: "big"}, {K: "B", RFmt: []int16{int16(r.Intn(2))}}, {K: "E"}, {K: "S"}}
	}
	steps := []Step{{Msgs: []pgwire.FMsg{startupMsg("u", "d")}}, {Msgs: msgs}, {Msgs: []pgwire.FMsg{{K: "Q", S1: "after"}}}}
	// (writes 0-5 are the startup reply; the result follows)
	c.Conns = []ConnCase{{Steps: steps, Faults: []Fault{{Kind: "write-cancel", At: r.Range(6, 14)}}}}
	return c
}

func checkC09BigRowCancel(x *Exec, c *Case) ([]Violation, bool) {
	r := x.Run(c)
	cs := r.Conns[0]
	t := ParseOut(cs)
	viol := GrammarViolation("C09", 0, t)
	viol = append(viol, connEnded("C09", 0, cs)...)
	// every DataRow that did arrive carries the value that was written
	for _, m := range t.Msgs {
		if m.Type != 'D' || len(m.Row) == 0 || m.Row[0] == nil {
			continue
		}
		ok := false
		if p := c.Programs["big"]; p != nil {
			for _, op := range p.Stmts[0].Ops {
				if op.K == "row" && len(op.Row) > 0 && op.Row[0].S == string(m.Row[0]) {
					ok = true
				}
			}
		}
		if !ok {
			viol = append(viol, Violation{Prop: "C09", Rule: "wrong-content", Sig: "wrong-content big row", Detail: fmt.Sprintf("conn 0: a DataRow arrived whose first field (%d bytes) is none of the values the handler wrote", len(m.Row[0]))})
			break
		}
	}
	return viol, cs.FaultFired["write-cancel"] > 0
}

// genC07Cancel: the session's middleware-derived context ends while a portal
// is being executed (the statement cancels it and lets time pass); the portal
// and its statement stay defined: executing the portal again runs the
// statement again, nobody closed anything.
func genC07Cancel(r *Rand) *Case {
	c := &Case{Variant: "session-cancelled-portal-reused", Server: ServerCfg{Limit: 4096, MW: []MWSpec{{Cancel: true}}, UserCaches: r.Chance(1, 4)}, Programs: map[string]*Program{}}
	col := []ColSpec{{Name: "a", OID: pgwire.OIDText}}
	c.Programs["x"] = &Program{Stmts: []*StmtProg{{Cols: col, Ops: []Op{{K: "cancel", Ms: r.PickInt(0, 1, 50, 6000)}, {K: "complete", Tag: "X"}}}}}
	pn, sn := r.Pick("", "p1"), r.Pick("", "s1")
	msgs := []pgwire.FMsg{{K: "P", S1: sn, S2: "x"}, {K: "B", S1: pn, S2: sn}, {K: "E", S1: pn}, {K: "S"}}
	again := []pgwire.FMsg{{K: "E", S1: pn}, {K: "S"}}
	if r.Bool() {
		again = []pgwire.FMsg{{K: "B", S1: pn, S2: sn}, {K: "E", S1: pn}, {K: "S"}}
	}
	steps := []Step{{Msgs: []pgwire.FMsg{startupMsg("u", "d")}}}
	if r.Bool() {
		steps = append(steps, Step{Msgs: append(msgs, again...)})
	} else {
		steps = append(steps, Step{Msgs: msgs}, Step{Msgs: again})
	}
	c.Conns = []ConnCase{{Steps: steps, Cuts: genCuts(r)}}
	return c
}

func checkC07Cancel(x *Exec, c *Case) ([]Violation, bool) {
	r := x.Run(c)
	cs := r.Conns[0]
	t := ParseOut(cs)
	viol := GrammarViolation("C07", 0, t)
	kinds := ""
	for _, m := range c.Conns[0].FlatMsgs() {
		kinds += m.K
	}
	// (a shrunk case may leave the domain of this oracle)
	if kinds != "startupPBESES" && kinds != "startupPBESBES" {
		return viol, false
	}
	if cs.Closed > 0 && cs.ClosedBefore > 0 && strings.Count(pgwire.Kinds(t.Msgs), "Z") < 3 {
		// the implementation ended the connection when its context ended: not
		// this rule's business
		return viol, false
	}
	if n := len(cs.EventsOf("stmt")); n != 2 {
		viol = append(viol, Violation{Prop: "C07", Rule: "portal-vanished", Sig: "portal-vanished",
			Detail: fmt.Sprintf("conn 0: the session context ended while the portal was executed; executing the portal again reached the statement function %d time(s) in total, want 2 - nobody closed the portal or its statement (server output %q)", n, pgwire.Kinds(t.Msgs))})
	}
	return viol, true
}

// genC06Panic: a statement function panics inside an extended-protocol
// Execute; the library turns that into a failed Execute (one ErrorResponse,
// discard until Sync) - the messages pipelined behind it must not run.
func genC06Panic(r *Rand) *Case {
	c := &Case{Variant: "panic-in-execute", Server: ServerCfg{Limit: 4096, UserCaches: r.Chance(1, 4)}, Programs: map[string]*Program{}}
	col := []ColSpec{{Name: "a", OID: pgwire.OIDText}}
	sp := &StmtProg{Cols: col}
	for k := r.Intn(3); k > 0; k-- {
		sp.Ops = append(sp.Ops, Op{K: "row", Row: []Val{{G: "string", S: "r"}}})
	}
	sp.Ops = append(sp.Ops, Op{K: "panic"})
	c.Programs["x"] = &Program{Stmts: []*StmtProg{sp}}
	c.Programs["y"] = &Program{Stmts: []*StmtProg{{Cols: col, Ops: []Op{{K: "row", Row: []Val{{G: "string", S: "y"}}}, {K: "complete", Tag: "Y"}}}}}
	good := []pgwire.FMsg{{K: "P", S1: "sy", S2: "y"}, {K: "B", S1: "py", S2: "sy"}, {K: "E", S1: "py"}}
	bad := []pgwire.FMsg{{K: "P", S1: "sx", S2: "x"}, {K: "B", S1: "px", S2: "sx"}, {K: "E", S1: "px"}}
	var msgs []pgwire.FMsg
	if r.Bool() {
		msgs = append(msgs, good...)
	}
	msgs = append(msgs, bad...)
	if r.Bool() {
		msgs = append(msgs, good...)
	}
	if r.Bool() {
		msgs = append(msgs, pgwire.FMsg{K: "D", Sub: 'P', S1: "px"}, pgwire.FMsg{K: "E", S1: "px"})
	}
	msgs = append(msgs, pgwire.FMsg{K: "S"})
	msgs = append(msgs, good...)
	msgs = append(msgs, pgwire.FMsg{K: "S"})
	steps := []Step{{Msgs: []pgwire.FMsg{startupMsg("u", "d")}}}
	if r.Bool() {
		steps = append(steps, Step{Msgs: msgs})
	} else {
		for i := range msgs {
			steps = append(steps, Step{Msgs: msgs[i : i+1]})
		}
	}
	c.Conns = []ConnCase{{Steps: steps, Cuts: genCuts(r)}}
	return c
}

// genC06Cancel: Parse/Bind/Execute/Sync of a statement that cancels the session
// context in the middle of its result (and may let simulated time pass before it
// goes on), followed by an optional simple query.
func genC06Cancel(r *Rand) *Case {
	c := &Case{Variant: "session-cancelled-mid-execute", Server: ServerCfg{Limit: 4096, MW: []MWSpec{{Cancel: true}}}, Programs: map[string]*Program{}}
	col := []ColSpec{{Name: "a", OID: pgwire.OIDText}}
	sp := &StmtProg{Cols: col}
	for k := r.Intn(3); k > 0; k-- {
		sp.Ops = append(sp.Ops, Op{K: "row", Row: []Val{{G: "string", S: "before"}}})
	}
	sp.Ops = append(sp.Ops, Op{K: "cancel", Ms: r.PickInt(0, 1, 50, 6000)})
	for k := r.Intn(3); k > 0; k-- {
		sp.Ops = append(sp.Ops, Op{K: "row", Row: []Val{{G: "string", S: "late"}}})
	}
	sp.Ops = append(sp.Ops, Op{K: "complete", Tag: "EXEC"})
	c.Programs["x"] = &Program{Stmts: []*StmtProg{sp}}
	c.Programs["after"] = &Program{Stmts: []*StmtProg{{Cols: col, Ops: []Op{{K: "complete", Tag: "AFTER"}}}}}
	msgs := []pgwire.FMsg{{K: "P", S1: "s", S2: "x"}, {K: "B", S1: "p", S2: "s"}, {K: "E", S1: "p"}, {K: "S"}}
	steps := []Step{{Msgs: []pgwire.FMsg{startupMsg("u", "d")}}, {Msgs: msgs}}
	if r.Bool() {
		steps = append(steps, Step{Msgs: []pgwire.FMsg{{K: "Q", S1: "after"}}})
	}
	c.Conns = []ConnCase{{Steps: steps, Cuts: genCuts(r)}}
	return c
}

// checkC06Cancel: whatever an implementation does once the session context is
// cancelled, the Execute is answered by its DataRows and then one
// CommandComplete or one ErrorResponse, the Sync by one ReadyForQuery, and
// nothing of that Execute arrives once the ReadyForQuery is out.
func checkC06Cancel(x *Exec, c *Case) ([]Violation, bool) {
	r := x.Run(c)
	cs := r.Conns[0]
	t := ParseOut(cs)
	viol := GrammarViolation("C06", 0, t)
	add := func(rule, detail string) {
		viol = append(viol, Violation{Prop: "C06", Rule: rule, Sig: rule, Detail: "conn 0: " + detail + fmt.Sprintf(" (server output %q)", pgwire.Kinds(t.Msgs))})
	}
	i := 0
	for i < len(t.Msgs) && t.Msgs[i].Type != 'Z' {
		i++
	}
	if i == len(t.Msgs) || len(cs.EventsOf("stmt")) == 0 {
		return viol, false
	}
	// (a shrunk case may leave the domain of this oracle: startup, then Parse,
	// Bind, Execute, Sync and at most one simple query)
	kinds := ""
	for _, m := range c.Conns[0].FlatMsgs() {
		kinds += m.K + " "
	}
	if kinds != "startup P B E S " && kinds != "startup P B E S Q " {
		return viol, false
	}
	ended, ready := 0, 0
	for _, m := range t.Msgs[i+1:] {
		switch m.Type {
		case 'Z':
			ready++
		case 'D':
			if ended > 0 || ready > 0 {
				add("result-after-end", "a DataRow follows the CommandComplete / ErrorResponse / ReadyForQuery that ended its Execute")
			}
		case 'C':
			if m.Tag == "AFTER" && ready == 1 {
				continue
			}
			if ended > 0 || ready > 0 {
				add("result-after-end", fmt.Sprintf("CommandComplete %q follows the message that ended its Execute", m.Tag))
			}
			ended++
		case 'E':
			if ready == 0 {
				if ended > 0 {
					add("result-after-end", "an ErrorResponse follows the CommandComplete of the same Execute")
				}
				ended++
			}
		}
	}
	if ready == 0 && cs.Closed == 0 {
		add("no-ready-for-query", "the Sync was not answered")
	}
	if n := len(t.Msgs); n > 0 && t.Msgs[n-1].Type != 'Z' && cs.Closed == 0 {
		add("result-after-end", "output follows the last ReadyForQuery")
	}
	return viol, true
}

// addManyParams inserts, right behind the startup step, a statement with as
// many parameters as the protocol's 16-bit count can express and a Bind that
// supplies all of them (mostly NULL or empty, so that the message stays within
// the 1 MiB limit of these cases).
func addManyParams(r *Rand, c *Case) {
	if len(c.Conns) == 0 || len(c.Conns[0].Steps) == 0 {
		return
	}
	key := "kmany"
	c.Programs[key] = &Program{Stmts: []*StmtProg{{PP: true, Ops: []Op{{K: "complete", Tag: "MANY"}}}}}
	n := r.PickInt(65535, 65535, 65534, 32768)
	b := pgwire.FMsg{K: "B", S1: "pmany", S2: "smany", Params: make([]pgwire.Param, n)}
	for i := range b.Params {
		switch r.Intn(4) {
		case 0:
			b.Params[i] = pgwire.Param{V: []byte{}}
		case 1:
			b.Params[i] = pgwire.Param{V: []byte(r.Ident(r.Range(1, 3)))}
		default:
			b.Params[i] = pgwire.Param{Null: true}
		}
	}
	switch r.Intn(3) {
	case 1:
		b.PFmt = []int16{int16(r.Intn(2))}
	case 2:
		b.PFmt = make([]int16, n)
		for i := range b.PFmt {
			b.PFmt[i] = int16(r.Intn(2))
		}
	}
	msgs := []pgwire.FMsg{{K: "P", S1: "smany", S2: fmt.Sprintf("%s $%d", key, n)}, b, {K: "E", S1: "pmany"}, {K: "S"}}
	cc := &c.Conns[0]
	steps := append([]Step{}, cc.Steps[:1]...)
	steps = append(steps, Step{Msgs: msgs})
	cc.Steps = append(steps, cc.Steps[1:]...)
}

// genC08Cancel: the session context (derived by a middleware) ends in one
// command; a later Bind/Execute on the same connection - if the server still
// runs it - hands the statement function exactly the parameters that were sent.
func genC08Cancel(r *Rand) *Case {
	c := &Case{Variant: "session-cancelled-before-bind", Server: ServerCfg{Limit: 4096, MW: []MWSpec{{Cancel: true}}}, Programs: map[string]*Program{}}
	c.Programs["c"] = &Program{Stmts: []*StmtProg{{Ops: []Op{{K: "complete", Tag: "C"}, {K: "cancel"}}}}}
	c.Programs["k"] = &Program{Stmts: []*StmtProg{{Params: []uint32{pgwire.OIDText, pgwire.OIDInt4, pgwire.OIDText, pgwire.OIDText}, Ops: []Op{{K: "params"}, {K: "complete", Tag: "K"}}}}}
	b := pgwire.FMsg{K: "B", S1: "p1", S2: "s1", PFmt: []int16{0, 1, 0, 0}, Params: []pgwire.Param{{V: []byte(r.Ident(r.Range(1, 12)))}, {V: []byte{0, 0, byte(r.Intn(256)), byte(r.Intn(256))}}, {Null: true}, {V: []byte{}}}}
	if r.Bool() {
		b.PFmt = nil
		b.Params[1] = pgwire.Param{V: []byte(fmt.Sprint(r.Intn(100000)))}
	}
	parse := []pgwire.FMsg{{K: "P", S1: "s1", S2: "k"}, {K: "S"}}
	run := []pgwire.FMsg{b, {K: "E", S1: "p1"}, {K: "S"}}
	steps := []Step{{Msgs: []pgwire.FMsg{startupMsg("u", "d")}}}
	if r.Bool() {
		// the statement is parsed before the context ends, bound after
		steps = append(steps, Step{Msgs: parse}, Step{Msgs: []pgwire.FMsg{{K: "Q", S1: "c"}}}, Step{Msgs: run})
	} else {
		steps = append(steps, Step{Msgs: []pgwire.FMsg{{K: "Q", S1: "c"}}}, Step{Msgs: append(parse, run...)})
	}
	c.Conns = []ConnCase{{Steps: steps, Cuts: genCuts(r)}}
	return c
}

// checkC08Cancel compares what the statement function received with what it
// receives in the same session when the context never ends (the reference run
// of the real code): if it is called at all, its parameters are the same.
func checkC08Cancel(x *Exec, c *Case) ([]Violation, bool) {
	r := x.Run(c)
	ref := c.Clone()
	if p := ref.Programs["c"]; p != nil && len(p.Stmts) == 1 {
		var ops []Op
		for _, op := range p.Stmts[0].Ops {
			if op.K != "cancel" {
				ops = append(ops, op)
			}
		}
		p.Stmts[0].Ops = ops
	}
	rr := x.Run(ref)
	var viol []Violation
	paramsOf := func(cs *connState) (string, bool) {
		for _, e := range cs.Events {
			if e.K == "op" && strings.Contains(e.S, " params ") {
				return e.S, true
			}
		}
		return "", false
	}
	if len(r.Conns) == 0 || len(rr.Conns) == 0 {
		return nil, false
	}
	viol = append(viol, GrammarViolation("C08", 0, ParseOut(r.Conns[0]))...)
	got, ran := paramsOf(r.Conns[0])
	want, refRan := paramsOf(rr.Conns[0])
	if ran && refRan && got != want {
		viol = append(viol, Violation{Prop: "C08", Rule: "parameters-differ-after-session-cancel", Sig: "parameters-differ-after-session-cancel", Detail: fmt.Sprintf("conn 0: the session context had ended in an earlier command; the statement function bound and executed afterwards received %q, in the same session without that cancellation %q", got, want)})
	}
	return viol, ran
}

// genC13Overlap: connection A's COPY stream has ended (CopyDone) while A's
// handler is still at work; in that window connection B starts a COPY of its
// own, which its client aborts; then A's handler finishes. Each connection is
// judged against its own solo run.
func genC13Overlap(r *Rand) *Case {
	c := &Case{Variant: "copy-beside-copy", Server: ServerCfg{Limit: 4096}, Programs: map[string]*Program{}}
	col := []ColSpec{{Name: "a", OID: pgwire.OIDText}}
	c.Programs["cpa"] = &Program{Stmts: []*StmtProg{{Cols: col, Ops: []Op{{K: "copyin", Fmt: int16(r.Intn(2))}, {K: "copyall"}, {K: "yield"}, {K: "yield"}, {K: "complete", Tag: "COPY A"}}}}}
	c.Programs["cpb"] = &Program{Stmts: []*StmtProg{{Cols: col, Ops: []Op{{K: "copyin", Fmt: int16(r.Intn(2))}, {K: "copyall"}, {K: "retlast"}}}}}
	c.Programs["q"] = &Program{Stmts: []*StmtProg{{Cols: col, Ops: []Op{{K: "row", Row: []Val{{G: "string", S: "ok"}}}, {K: "complete", Tag: "SELECT 1"}}}}}
	a := []pgwire.FMsg{{K: "Q", S1: "cpa"}}
	for n := r.Range(0, 3); n > 0; n-- {
		a = append(a, pgwire.FMsg{K: "d", Data: []byte(r.Ident(r.Range(1, 40)))})
	}
	a = append(a, pgwire.FMsg{K: "c"}, pgwire.FMsg{K: "Q", S1: "q"})
	b := []pgwire.FMsg{{K: "Q", S1: "cpb"}}
	if r.Bool() {
		b = append(b, pgwire.FMsg{K: "d", Data: []byte(r.Ident(r.Range(1, 40)))})
	}
	switch r.Intn(3) {
	case 0:
		b = append(b, pgwire.FMsg{K: "f", S1: "client gave up " + r.Ident(4)})
	case 1:
		b = append(b, pgwire.FMsg{K: "typed", T: 'd', Pad: 5000, PadPat: []byte("oversized ")}, pgwire.FMsg{K: "c"})
	case 2:
		b = append(b, pgwire.FMsg{K: "Q", S1: "q"})
	}
	b = append(b, pgwire.FMsg{K: "Q", S1: "q"})
	c.Conns = []ConnCase{
		{Steps: []Step{{Msgs: []pgwire.FMsg{startupMsg("a", "d")}}, {Msgs: a}}},
		{Steps: []Step{{Msgs: []pgwire.FMsg{startupMsg("b", "d")}}, {Msgs: b}}},
	}
	c.Sched = &SchedCase{Strategy: r.Pick("uniform", "pct"), Depth: 1, MaxSteps: 300000,
		Holds: []Hold{{Task: 2, Point: "conn.start", Until: 1, UntilPoint: "op.yield"}, {Task: 1, Point: "op.yield", Until: 2, UntilPoint: "close"}}}
	return c
}

func init() {
	// ------------------------------------------------------------------ C05
	register(&Prop{
		ID: "C05", Level: "exploration", QuickS: 25, ThoroughS: 420,
		Rule:       "seeded simple-query histories (1-6 Query messages, pipelined / one per quiescence point / grouped, random segmentation) whose query texts map to generated handler programs (parser error, 0/1/many statements, 0-4 typed columns, good / wrong-arity / unencodable rows, Written() reads, Complete, calls after completion, error return at any position); a quarter of the histories repeat query texts (half of them with a parser that hands out the very same statements value again), errors include slice-typed (unhashable) values and a per-session error object that is filled in anew for every failure; a fifth of the histories interleave extended-protocol messages (synced or not, failing or not) with the simple queries; a share of cases cancels the session context (derived by a session middleware, as a session time limit would) while one statement of a multi-statement query runs: the cycle must still be all results in order or results of a prefix plus exactly one ErrorResponse, never a silently shortened result, and the result writer stays a state machine under cancellation (0-3 columns; the context ends before, after or while a value of a row is being encoded: a Row call that returned nil put its DataRow on the wire, one that failed did not, Written() agrees); variants: a statement cancels the middleware-derived session context (optionally letting simulated time pass before it goes on writing) - nothing of a query may arrive after its ReadyForQuery; E2: Server.Close pinned inside a running query of 1-3 statements - the admitted query is answered in full with one ReadyForQuery; non-trivial = at least one result-writer operation was executed and judged; distinct = distinct case content hashes",
		Components: append(append([]string{}, e1Components...), "E2 share (the variants that pin Server.Close or other connections against a running session): seeded scheduler harness/kernel.go decides every interleaving of connection goroutines and Close callers at transport operations, callbacks, hand-placed hooks and spliced synchronisation points"), Assumptions: commonAssumptions,
		Gen: func(r *Rand, tier string) *Case {
			if r.Chance(1, 25) {
				return genC05Cancel(r)
			}
			if r.Chance(1, 40) {
				return genC05Close(r)
			}
			c := &Case{Server: ServerCfg{Limit: smallLimit(r)}}
			// (a fifth of the histories put extended-protocol messages - synced or
			// not - between the simple queries: a Query is a cycle of its own wherever it stands)
			ext := r.Chance(1, 5)
			genHistory(r, c, histOpts{decorated: r.Chance(1, 4), manyRows: true, simple: true, errs: true, abuse: true, multi: true, typedNull: false, rich: true, maxUnits: units(tier, 6), terminate: true,
				extended: ext, params: ext, unknownNames: ext, closes: ext})
			if r.Chance(1, 4) {
				// the same query texts again (an application's parser may keep what it
				// has parsed and hand the same statements out once more)
				c.Server.MemoParser = r.Bool()
				cc := &c.Conns[0]
				for n := r.Range(1, 3); n > 0; n-- {
					si := r.Intn(len(cc.Steps))
					st := &cc.Steps[si]
					for mi := range st.Msgs {
						if st.Msgs[mi].K == "Q" && isPlain(&st.Msgs[mi]) {
							ms := append([]pgwire.FMsg{}, st.Msgs[:mi+1]...)
							ms = append(ms, st.Msgs[mi])
							st.Msgs = append(ms, st.Msgs[mi+1:]...)
							break
						}
					}
				}
			}
			return c
		},
		Check: func(x *Exec, c *Case) ([]Violation, bool) {
			if c.Variant == "session-cancelled-mid-query" {
				return checkC05Cancel(x, c)
			}
			if c.Variant == "close-during-query" {
				return checkC05Close(x, c)
			}
			viol, r, mrs := modelCheck("C05", x, c)
			nt := false
			for i, cs := range r.Conns {
				if mrs != nil && mrs[i] != nil && countKind(cs, "op") > 0 {
					nt = true
				}
			}
			return viol, nt
		},
	})
	// ------------------------------------------------------------------ C06
	register(&Prop{
		ID: "C06", Level: "exploration", QuickS: 25, ThoroughS: 420,
		Rule:       "seeded histories of Parse/Bind/Describe/Execute/Close/Flush/Sync over <=3 statement and <=3 portal names (incl. the empty name and names never defined) interleaved with simple queries, oversized and unknown messages, parsers and statement functions scripted to fail; delivered pipelined, one message per quiescence point, or grouped; judged message by message against the reference model with discard-until-Sync, including that each designated reply is on the wire when the server next waits for input; units that repeat an earlier Parse verbatim and that bind one statement several times with result-format lists differing in spelling or one position; long results (a row repeated 17-3000 times, up to 300 columns); an eighth of the cases run behind an earlier session on the same server that used the same names; variants: the session context is cancelled in the middle of an Execute (nothing of it may arrive after the message that ended it), a statement function panics inside Execute (a failed Execute: one ErrorResponse, discard until Sync); non-trivial = an ErrorResponse occurred and at least one later message of the same batch was judged; distinct = distinct case content hashes",
		Components: e1Components, Assumptions: commonAssumptions,
		Gen: func(r *Rand, tier string) *Case {
			if r.Chance(1, 40) {
				return genC06Cancel(r)
			}
			if r.Chance(1, 40) {
				return genC06Panic(r)
			}
			c := &Case{Server: ServerCfg{Limit: smallLimit(r)}}
			genHistory(r, c, histOpts{copy: r.Chance(1, 5), decorated: r.Chance(1, 4), manyRows: true, simple: true, extended: true, errs: true, abuse: r.Chance(1, 3), unknown: true, oversized: true, unknownNames: true, closes: true, stray: true, params: true, maxUnits: units(tier, 8), terminate: true})
			if r.Chance(1, 8) {
				// the server has served (and seen off) an earlier session that used
				// the same statement and portal names
				genHistory(r, c, histOpts{prefix: "b", simple: true, extended: true, errs: true, unknownNames: true, closes: true, params: true, maxUnits: units(tier, 5)})
				c.Conns[0], c.Conns[1] = c.Conns[1], c.Conns[0]
			}
			return c
		},
		Check: func(x *Exec, c *Case) ([]Violation, bool) {
			if c.Variant == "session-cancelled-mid-execute" {
				return checkC06Cancel(x, c)
			}
			viol, r, _ := modelCheck("C06", x, c)
			nt := false
			for _, cs := range r.Conns {
				t := ParseOut(cs)
				k := pgwire.Kinds(t.Msgs)
				if i := strings.IndexByte(k, 'E'); i >= 0 && i < len(k)-1 {
					nt = true
				}
			}
			return viol, nt
		},
	})
	// ------------------------------------------------------------------ C13
	register(&Prop{
		ID: "C13", Level: "exploration", QuickS: 25, ThoroughS: 420,
		Rule:       "seeded COPY-in histories: a statement starts COPY (text or binary, 1-4 columns) and follows a scripted read plan (read k chunks and complete / fail after k chunks / read to the end and report the outcome); the client follows CopyInResponse with sequences over CopyData(0..300 bytes)/CopyDone/CopyFail/Flush/Sync/foreign messages, plus stray COPY messages outside COPY mode, in simple and extended protocol; foreign messages inside the stream include Terminate, Describe, Close and Bind; E2 variant copy-beside-copy: one connection's COPY has ended with CopyDone while its handler is still busy, meanwhile another connection starts a COPY that its client aborts (CopyFail, oversized or foreign message) - each connection must fare exactly as when served alone; non-trivial = a CopyInResponse was sent and the handler observed at least one COPY read outcome; distinct = distinct case content hashes",
		Components: e1Components, Assumptions: commonAssumptions,
		Gen: func(r *Rand, tier string) *Case {
			if r.Chance(1, 30) {
				return genC13Overlap(r)
			}
			c := &Case{Server: ServerCfg{Limit: smallLimit(r)}}
			genHistory(r, c, histOpts{decorated: r.Chance(1, 4), copyTwice: true, copyForeign: true, simple: true, copy: true, extended: r.Bool(), errs: true, stray: true, maxUnits: units(tier, 5)})
			return c
		},
		Check: func(x *Exec, c *Case) ([]Violation, bool) {
			if c.Variant == "copy-beside-copy" {
				return checkConcurrent("C13", x, c, 2)
			}
			viol, r, _ := modelCheck("C13", x, c)
			nt := false
			for i, cs := range r.Conns {
				t := ParseOut(cs)
				if strings.IndexByte(pgwire.Kinds(t.Msgs), 'G') >= 0 {
					for _, e := range cs.Events {
						if e.K == "op" && strings.Contains(e.S, "copyread") {
							nt = true
						}
					}
				}
				if t.Grammar == nil && len(cs.cc.Faults) == 0 {
					viol = append(viol, copyCycleCount("C13", i, c, cs, t)...)
				}
			}
			return viol, nt
		},
	})
	// ------------------------------------------------------------------ C08
	register(&Prop{
		ID: "C08", Level: "exploration", QuickS: 25, ThoroughS: 420,
		Rule:       "seeded extended-protocol histories over statements with 0-5 declared parameter types and typed columns: Bind messages with NULL / empty / NUL-containing / multi-KiB values, parameter-format lists of length 0, 1 and n, result-format lists of length 0, 1 and n, and 0-3 other messages (Describe, Parse of other names with long texts, simple queries, stray CopyData) between Bind and Execute; the statement function records count, Value(), Format() and Scan(declared oid) of every parameter; compared with the reference model and the independent codecs, including the RowDescription/DataRow formats of the portal and the ParameterDescription of the statement; 1 in 40 cases adds a $65535 statement bound with 65535/65534/32768 parameters under a 1 MiB limit; a quarter of the histories contain statement functions that fail (any SQLSTATE, serialization failures among them) at any point; variant session-cancelled-before-bind: the middleware-derived session context ends in one command, a statement bound and executed afterwards - if it runs - receives what the same session delivers without the cancellation; 1 case in 50 is a decoy (an int4-only session on a server whose ExtendTypes option re-registers text, varchar, timestamp and numeric: the cases that follow in the same process must not notice); the scan op asks every parameter again with another OID and compares with a fresh parameter holding the same bytes; non-trivial = a statement function ran with at least one parameter; distinct = distinct case content hashes",
		Components: e1Components, Assumptions: commonAssumptions,
		Gen: func(r *Rand, tier string) *Case {
			if r.Chance(1, 10) {
				// E2 share: neighbouring connections bind and scan values of the same
				// OIDs concurrently
				return genConcurrent(r, r.Range(2, 3), histOpts{extended: true, params: true, binary: true, between: true, maxUnits: 4}, 16384)
			}
			if r.Chance(1, 50) {
				return genExtendDecoy(r)
			}
			if r.Chance(1, 40) {
				return genC08Cancel(r)
			}
			c := &Case{Server: ServerCfg{Limit: r.PickInt(4096, 16384, 65536, 65536)}}
			many := r.Chance(1, 40)
			if many {
				c.Server.Limit = 1 << 20
			}
			genHistory(r, c, histOpts{extended: true, simple: r.Chance(1, 4), params: true, binary: true, between: true, bigValues: true, closes: r.Chance(1, 4), errs: r.Chance(1, 4), maxUnits: units(tier, 6)})
			if many {
				addManyParams(r, c)
			}
			return c
		},
		Check: func(x *Exec, c *Case) ([]Violation, bool) {
			if c.Variant == "session-cancelled-before-bind" {
				return checkC08Cancel(x, c)
			}
			if c.Sched != nil {
				return checkConcurrent("C08", x, c, 2)
			}
			viol, r, _ := modelCheck("C08", x, c)
			nt := false
			for _, cs := range r.Conns {
				for _, e := range cs.Events {
					if e.K == "stmt" && !strings.HasSuffix(e.S, "nparams=0") {
						nt = true
					}
				}
			}
			return viol, nt
		},
	})
	// ------------------------------------------------------------------ C09
	register(&Prop{
		ID: "C09", Level: "exploration", QuickS: 25, ThoroughS: 420,
		Rule:       "seeded sessions whose statements write rows over bool/int2/int4/int8/oid/float4/float8/text/varchar/bytea/uuid/date/timestamp/timestamptz/name/bpchar/json/jsonb columns with boundary and random values (min/max, +-0, NaN, +-Inf, empty and multi-byte strings, empty and NUL-containing bytea, zero UUID, text/bytea values of 4090-70000 bytes) in the Go representations a handler would use (native values, pointers, pgtype structs, and Go strings holding the text form of int4/int8/uuid values, which only the text format can encode), text format (simple protocol) and per-column text/binary result formats (extended protocol), SQL NULL written as untyped nil, typed nil pointer or invalid pgtype value in any position; 1 case in 50 is a decoy: a short int4-only session on a server whose ExtendTypes option re-registers text, varchar, timestamp and numeric with other codecs - the cases that follow it in the same worker process must not notice (state that outlives a Server is replayed through the prelude mechanism); a sixth of the servers announce another server_version (option or configured parameter: 7.4 ... 16devel); the same OID is encoded from different Go types in varying order within a connection; every DataRow is decoded by the independent codecs; variant: rows of 17-70 KB on their way out when the session's middleware-derived context ends (fault write-cancel): the wire stays a sequence of complete messages and every DataRow that arrives carries a value that was written; non-trivial = at least one DataRow was produced and decoded; distinct = distinct case content hashes",
		Components: e1Components, Assumptions: commonAssumptions,
		Gen: func(r *Rand, tier string) *Case {
			if r.Chance(1, 10) {
				// E2 share: 2-3 connections write rows of different Go types for the
				// same OIDs under seeded interleavings
				return genConcurrent(r, r.Range(2, 3), histOpts{simple: true, extended: true, binary: true, rich: true, typedNull: true, multi: true, maxUnits: 4}, 4096)
			}
			if r.Chance(1, 40) {
				return genC09BigRowCancel(r)
			}
			if r.Chance(1, 50) {
				return genExtendDecoy(r)
			}
			c := &Case{Server: ServerCfg{Limit: smallLimit(r)}}
			if r.Chance(1, 6) {
				// the announced server_version (option or configured parameter) is
				// something the client is told; it never changes how a value is sent
				v := r.Pick("9.6.24", "11.22", "8.4.1", "15.2", "16devel", "7.4", "12.0", r.Str(4))
				if r.Bool() {
					c.Server.Version = v
				} else {
					c.Server.Params = map[string]string{"server_version": v}
				}
			}
			r.Large = true
			genHistory(r, c, histOpts{manyRows: true, simple: true, extended: true, binary: true, rich: true, docs: true, typedNull: true, multi: true, abuse: r.Chance(1, 3), maxUnits: units(tier, 6)})
			return c
		},
		Check: func(x *Exec, c *Case) ([]Violation, bool) {
			if c.Variant == "session-ends-during-row" {
				return checkC09BigRowCancel(x, c)
			}
			if c.Sched != nil {
				return checkConcurrent("C09", x, c, 2)
			}
			viol, r, _ := modelCheck("C09", x, c)
			nt := false
			for _, cs := range r.Conns {
				if strings.IndexByte(pgwire.Kinds(ParseOut(cs).Msgs), 'D') >= 0 {
					nt = true
				}
			}
			return viol, nt
		},
	})
	// ------------------------------------------------------------------ C18
	register(&Prop{
		ID: "C18", Level: "exploration", QuickS: 25, ThoroughS: 420,
		Rule:       "seeded sessions in which every callback retains what it is given (validator: database/user/password strings and the client-parameter map it finds in its context; parser: query string and that map; statement functions: Parameter.Value() slices and the client-parameter strings; the Bind method of an application-supplied portal cache: the parameter slice it is handed) together with a private deep copy taken at receipt; the rest of the session stresses read-buffer reuse: messages of body size 1, 4090..4100, 8191/8192, L-5, L-1, L, oversized messages skipped in several chunks, stray CopyData of those sizes, COPY streams, long runs of small messages; after every later callback and at connection end each retained value must equal its copy; a quarter of the cases are followed by a later session on the same server, after which everything the first one retained is compared once more; a pass-through auth strategy watches cap(Reader.Msg) so that the probes reset_reused_tail / reset_reallocated show the mechanism was reached; E2 variant: Server.Close runs while the connection is open and the client keeps sending messages of sizes around the granule, which are only drained; non-trivial = at least one value was retained and at least two later messages were processed; distinct = distinct case content hashes",
		Components: append(append([]string{}, e1Components...), "E2 share (the variants that pin Server.Close or other connections against a running session): seeded scheduler harness/kernel.go decides every interleaving of connection goroutines and Close callers at transport operations, callbacks, hand-placed hooks and spliced synchronisation points"), Assumptions: commonAssumptions,
		Gen: func(r *Rand, tier string) *Case {
			if r.Chance(1, 30) {
				return genC18Close(r)
			}
			c := &Case{Server: ServerCfg{Limit: r.PickInt(4096, 5000, 8192, 16384, 65536)}}
			c.Server.Auth = r.Pick("cleartext", "passthrough", "passthrough")
			// (a fifth of the servers use application-supplied caches whose Bind keeps
			// the parameter slice it is handed)
			c.Server.UserCaches = r.Chance(1, 5)
			genHistory(r, c, histOpts{closes: r.Chance(1, 3), errs: r.Chance(1, 3), simple: true, extended: true, copy: r.Chance(1, 3), params: true, retain: true, sizes: true, bigValues: true, between: true, stray: true, maxUnits: units(tier, 9)})
			if r.Chance(1, 4) {
				// a later session on the same server (what the first one's callbacks
				// retained is looked at again when everything is over: a holder may
				// outlive its connection)
				genHistory(r, c, histOpts{prefix: "b", simple: true, extended: true, params: true, retain: true, sizes: r.Bool(), maxUnits: units(tier, 5)})
			}
			if su := &c.Conns[0].Steps[0].Msgs[0]; su.K == "startup" && len(su.KV) == 2 && r.Chance(1, 6) {
				// a startup packet without (or with an empty) database parameter
				if r.Bool() {
					su.KV = su.KV[:1]
				} else {
					su.KV[1][1] = ""
				}
				for i := range c.Server.Validator {
					c.Server.Validator[i].DB = ""
				}
			}
			return c
		},
		Check: func(x *Exec, c *Case) ([]Violation, bool) {
			if c.Variant == "server-closed-then-drained" {
				return checkC18Close(x, c)
			}
			viol, r, _ := modelCheck("C18", x, c)
			nt := false
			for _, cs := range r.Conns {
				if len(cs.retainedVals) > 0 && countKind(cs, "parse")+countKind(cs, "stmt") >= 3 {
					nt = true
				}
			}
			return viol, nt
		},
	})
	// ------------------------------------------------------------------ C07
	register(&Prop{
		ID: "C07", Level: "exploration", QuickS: 25, ThoroughS: 420, Race: true, RaceWorkers: 3,
		RaceGen: func(r *Rand, tier string) *Case {
			// the -race shard runs the concurrent sets only: state shared between
			// connections without synchronisation is decided by happens-before,
			// whatever the interleaving
			return genConcurrent(r, r.Range(2, 4), histOpts{extended: true, closes: true, params: true, binary: true, unknownNames: true, maxUnits: units(tier, 6)}, 4096)
		},
		Rule:        "seeded histories of Parse/Bind/Describe/Execute/Close over a pool of 3 (two fifths of the histories: 6 or 9, with longer histories) statement and portal names (incl. the unnamed ones); every Parse carries a unique query text, parameter list and column set so that each later Describe/Execute is attributable to exactly one definition; judged against the per-connection two-map namespace model (statement current at Bind time, Bind's parameters and result formats, Close removes); E2 variant: 2-3 connections run such histories over the same names under seeded schedules and each must equal its own model run; a quarter of the histories contain churn units (20-260 Parse/Close cycles of one name, distinct live names, Bind/Close of portals; or a table under stress: 3-9 portals or statements alive at once, then rounds of close / define again / close / use); variant: the session context ends while a portal is executed and the portal is used again (nobody closed it); the -race shard (3 workers) runs the concurrent sets; non-trivial = a name was re-used (re-parsed / re-bound / closed) before a later use; distinct = distinct case content hashes",
		Components:  append(append([]string{}, e1Components...), "E2 share: seeded scheduler (harness/kernel.go) decides every interleaving of the connection goroutines at transport operations, callbacks and spliced schedule points"),
		Assumptions: commonAssumptions,
		Gen: func(r *Rand, tier string) *Case {
			if r.Chance(1, 40) {
				return genC07Cancel(r)
			}
			if r.Chance(1, 5) {
				// E2 share: 2-4 connections run such histories over the same names
				return genConcurrent(r, r.Range(2, 4), histOpts{extended: true, closes: true, params: true, binary: true, unknownNames: true, maxUnits: units(tier, 6)}, 4096)
			}
			c := &Case{Server: ServerCfg{Limit: smallLimit(r)}}
			if r.Chance(1, 5) {
				c.Server.UserCaches = true
			}
			genHistory(r, c, histOpts{simple: r.Chance(1, 3), churn: r.Chance(1, 4), extended: true, closes: true, params: true, binary: true, unknownNames: true, errs: r.Bool(), maxUnits: units(tier, 10) + 6*r.Intn(2), names: r.PickInt(0, 0, 0, 6, 9)})
			if r.Chance(1, 4) {
				// a second connection, served afterwards on the same server, refers to
				// the names the first one defined without defining them itself: they
				// must be unknown to it
				var ms []pgwire.FMsg
				for _, n := range []string{"", "s1", "s2"} {
					switch r.Intn(3) {
					case 0:
						ms = append(ms, pgwire.FMsg{K: "D", Sub: 'S', S1: n}, pgwire.FMsg{K: "S"})
					case 1:
						ms = append(ms, pgwire.FMsg{K: "B", S1: "", S2: n}, pgwire.FMsg{K: "S"})
					}
				}
				for _, n := range []string{"", "p1", "p2"} {
					switch r.Intn(3) {
					case 0:
						ms = append(ms, pgwire.FMsg{K: "E", S1: n}, pgwire.FMsg{K: "S"})
					case 1:
						ms = append(ms, pgwire.FMsg{K: "D", Sub: 'P', S1: n}, pgwire.FMsg{K: "S"})
					}
				}
				c.Conns = append(c.Conns, ConnCase{Steps: []Step{{Msgs: []pgwire.FMsg{startupMsg("second", "db")}}, {Msgs: ms}}})
			}
			return c
		},
		Check: func(x *Exec, c *Case) ([]Violation, bool) {
			if c.Variant == "session-cancelled-portal-reused" {
				return checkC07Cancel(x, c)
			}
			if c.Sched != nil {
				viol, _ := checkConcurrent("C07", x, c, 3)
				return viol, nameReused(c)
			}
			viol, _, _ := modelCheck("C07", x, c)
			return viol, nameReused(c)
		},
	})
}

// rtConn is a helper to reach the embedding connState from a SimConn.
func (c *SimConn) rtConn() *connState { return c.rt.Conns[c.ID] }

func nameReused(c *Case) bool {
	for _, cc := range c.Conns {
		seenS, seenP := map[string]int{}, map[string]int{}
		for _, m := range cc.FlatMsgs() {
			switch m.K {
			case "P":
				seenS[m.S1]++
				if seenS[m.S1] > 1 {
					return true
				}
			case "B":
				seenP[m.S1]++
				if seenP[m.S1] > 1 {
					return true
				}
			case "C":
				return true
			}
		}
	}
	return false
}

// copyCycleCount is C13's count oracle for simple-query COPY cycles: a cycle
// in which the COPY was aborted (CopyFail or a foreign message while the
// handler was reading) or the handler failed contains exactly one
// ErrorResponse and exactly one ReadyForQuery, whatever the handler did with
// the error it was given. It is evaluated on single-statement COPY queries
// delivered as the only traffic of their steps, where the cycle boundaries are
// unambiguous from the quiescence snapshots.
func copyCycleCount(prop string, conn int, c *Case, cs *connState, t *Transcript) []Violation {
	msgs := cs.cc.FlatMsgs()
	// only histories of the form: startup [password] then ONE simple COPY query
	// with its COPY messages and nothing else
	var q *pgwire.FMsg
	aborted := false
	limit := c.Server.Limit
	if limit <= 0 {
		limit = 1 << 24
	}
	for i := range msgs {
		m := &msgs[i]
		if m.DeclaredBody() > int64(limit) {
			return nil // an oversized message aborts the COPY earlier than the CopyFail does
		}
		switch m.K {
		case "startup", "p":
		case "Q":
			if q != nil {
				return nil
			}
			q = m
		case "d", "c", "H", "S":
			if q == nil {
				return nil
			}
			if m.K == "c" && !aborted {
				return nil // the COPY ended regularly; a later CopyFail is a stray message
			}
			if m.K == "S" && aborted {
				return nil // a Sync after the abort is answered at top level with its own ReadyForQuery
			}
		case "f":
			if q == nil {
				return nil
			}
			aborted = true
		default:
			return nil
		}
	}
	if q == nil || !aborted {
		return nil
	}
	prog := c.Programs[ProgramKey(q.S1)]
	if prog == nil || len(prog.Stmts) != 1 {
		return nil
	}
	readsAll := false
	for _, op := range prog.Stmts[0].Ops {
		if op.K == "copyall" {
			readsAll = true
		}
	}
	if !readsAll {
		return nil
	}
	ne, nz := 0, 0
	after := false
	for _, m := range t.Msgs {
		if m.Type == 'G' {
			after = true
			continue
		}
		if !after {
			continue
		}
		switch m.Type {
		case 'E':
			ne++
		case 'Z':
			nz++
		}
	}
	if !after {
		return nil
	}
	if ne != 1 || nz != 1 {
		return []Violation{{Prop: prop, Rule: "copy-abort-cycle", Sig: fmt.Sprintf("CopyFail cycle E=%d Z=%d", ne, nz),
			Detail: fmt.Sprintf("conn %d: COPY aborted by CopyFail: the cycle carries %d ErrorResponse and %d ReadyForQuery (want exactly 1 and 1): %q", conn, ne, nz, pgwire.Kinds(t.Msgs))}}
	}
	return nil
}

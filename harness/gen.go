package harness

import (
	"fmt"
	"math"

	"github.com/jackc/pgx/v5/pgtype"

	"verif/pgwire"
)

// ---------------------------------------------------------------------------
// generator helpers shared by the properties

var sqlstates = []string{"22012", "23505", "42601", "42P01", "XX000", "P0001", "0A000", "57014", "08006", "28P01", "40001", "40P01", "53300", "08000"}

func genErrSpec(r *Rand) *ErrSpec {
	e := &ErrSpec{Msg: "boom " + r.Str(r.Intn(12))}
	if r.Chance(1, 10) {
		e.Msg = ""
	}
	if r.Bool() {
		e.Code = sqlstates[r.Intn(len(sqlstates))]
	}
	if r.Bool() {
		// (any severity: a callback that returns an error has failed)
		e.Sev = r.Pick("ERROR", "FATAL", "PANIC", "WARNING", "NOTICE", "DEBUG", "INFO", "LOG")
	}
	if r.Chance(1, 3) {
		e.Hint = r.Str(r.Range(1, 10))
	}
	if r.Chance(1, 3) {
		e.Detail = r.Str(r.Range(1, 10))
	}
	if r.Chance(1, 3) {
		e.SrcFile = r.Ident(5) + ".go"
		e.SrcFunc = r.Ident(6)
		e.SrcLine = int32(r.PickInt(0, 1, 42, 255, 256, 65536, 16843009, 0x7fffffff, 808464432))
	}
	if r.Chance(1, 4) {
		e.Constraint = r.Ident(6)
	}
	// random decorator order with optional wraps
	letters := []byte("cshdon")
	for i := len(letters) - 1; i > 0; i-- {
		j := r.Intn(i + 1)
		letters[i], letters[j] = letters[j], letters[i]
	}
	order := ""
	for _, l := range letters {
		if r.Chance(1, 6) {
			order += "w"
		}
		order += string(l)
	}
	if r.Chance(1, 6) {
		order += "w"
	}
	e.Order = order
	if r.Chance(1, 10) {
		e.Wraps = r.Pick("eof", "unexpected-eof", "closed-pipe", "net-closed", "epipe", "econnreset")
	}
	if r.Chance(1, 8) {
		// several causes joined into one error value: still one failure
		for n := r.Range(1, 2); n > 0; n-- {
			e.Join = append(e.Join, plainErr(r))
		}
	}
	return e
}

// simple, always-safe error (no decorations that the pinned tree mis-encodes)
func plainErr(r *Rand) *ErrSpec {
	e := &ErrSpec{Msg: "failed " + r.Ident(4), Order: "cs"}
	if r.Chance(1, 12) {
		// error values of unusual make: slice-typed, or the session's one mutable
		// error object filled in anew
		e.Kind = r.Pick("slice", "reused", "reused")
		return e
	}
	if r.Bool() {
		e.Code = sqlstates[r.Intn(len(sqlstates))]
	}
	if r.Chance(1, 3) {
		e.Sev = "ERROR"
	}
	return e
}

var goKindsFor = map[string][]string{
	"bool":  {"bool", "pg:Bool", "ptr:bool"},
	"int2":  {"int16", "int32", "int64", "int", "pg:Int2", "pg:Int4", "pg:Int8", "ptr:int16"},
	"int4":  {"int32", "int64", "int", "int16", "pg:Int4", "pg:Int8", "pg:Int2", "ptr:int32"},
	"int8":  {"int64", "int", "int32", "pg:Int8", "pg:Int4", "ptr:int64"},
	"oid":   {"uint32", "pg:Uint32"},
	"f32":   {"float32", "pg:Float4", "ptr:float32"},
	"f64":   {"float64", "pg:Float8", "ptr:float64"},
	"text":  {"string", "pg:Text", "ptr:string"},
	"bytes": {"bytes"},
	"uuid":  {"uuid", "pg:UUID"},
	"date":  {"date", "pg:Date"},
	"ts":    {"time", "pg:Timestamp"},
	"tstz":  {"time", "pg:Timestamptz"},
	"chars": {"string", "ptr:string"},
	"doc":   {"string", "ptr:string"},
}

func oidFamily(oid uint32) string {
	switch oid {
	case pgwire.OIDBool:
		return "bool"
	case pgwire.OIDInt2:
		return "int2"
	case pgwire.OIDInt4:
		return "int4"
	case pgwire.OIDInt8:
		return "int8"
	case pgwire.OIDOid:
		return "oid"
	case pgwire.OIDFloat4:
		return "f32"
	case pgwire.OIDFloat8:
		return "f64"
	case pgwire.OIDText, pgwire.OIDVarchar:
		return "text"
	case pgwire.OIDBytea:
		return "bytes"
	case pgwire.OIDUUID:
		return "uuid"
	case pgwire.OIDDate:
		return "date"
	case pgwire.OIDTimestamp:
		return "ts"
	case pgwire.OIDTimestamptz:
		return "tstz"
	case pgwire.OIDName, pgwire.OIDBPChar:
		return "chars"
	case pgwire.OIDJSON, pgwire.OIDJSONB:
		return "doc"
	}
	return ""
}

// baseOIDs are the types every generator may use; richOIDs adds date/time.
var baseOIDs = []uint32{pgwire.OIDBool, pgwire.OIDInt2, pgwire.OIDInt4, pgwire.OIDInt8, pgwire.OIDFloat4, pgwire.OIDFloat8, pgwire.OIDText, pgwire.OIDVarchar, pgwire.OIDBytea, pgwire.OIDUUID, pgwire.OIDOid}
var richOIDs = append(append([]uint32{}, baseOIDs...), pgwire.OIDDate, pgwire.OIDTimestamp, pgwire.OIDTimestamptz)

// docOIDs adds the character-like types a handler fills from Go strings: name,
// bpchar, json and jsonb (whose binary form is not its text).
var docOIDs = append(append([]uint32{}, richOIDs...), pgwire.OIDName, pgwire.OIDBPChar, pgwire.OIDJSON, pgwire.OIDJSONB, pgwire.OIDJSONB)

func genInt(r *Rand, lo, hi int64) int64 {
	switch r.Intn(8) {
	case 0:
		return lo
	case 1:
		return hi
	case 2:
		return 0
	case 3:
		return -1
	case 4:
		return 1
	}
	span := uint64(hi - lo)
	if span == math.MaxUint64 {
		return int64(r.U64())
	}
	return lo + int64(r.U64()%(span+1))
}

// genVal draws an encodable non-NULL value for a column type in a random Go
// representation.
func genVal(r *Rand, oid uint32) Val {
	fam := oidFamily(oid)
	if (fam == "int4" || fam == "int8" || fam == "uuid") && r.Chance(1, 12) {
		// the value handed over as a Go string in its text form: fine for the text
		// format, not encodable in the binary format
		base := genValRepr(r, oid, fam)
		enc, err := pgwire.Encode(oid, 0, base.Canon(oid))
		if err == nil {
			return Val{G: "strtext", S: string(enc)}
		}
	}
	v := genValRepr(r, oid, fam)
	if r.Large && (fam == "text" || fam == "bytes") && r.Chance(1, 40) {
		// a value larger than the 4 KiB granule of the output frame
		n := r.PickInt(4090, 4096, 5000, 9000, 70000)
		if fam == "text" {
			v.S = r.Ident(n)
		} else {
			v.B = r.Bytes(n)
		}
	}
	return v
}

func genValRepr(r *Rand, oid uint32, fam string) Val {
	kinds := goKindsFor[fam]
	g := kinds[r.Intn(len(kinds))]
	v := Val{G: g}
	switch fam {
	case "bool":
		v.I = int64(r.Intn(2))
	case "int2":
		v.I = genInt(r, math.MinInt16, math.MaxInt16)
	case "int4":
		lo, hi := int64(math.MinInt32), int64(math.MaxInt32)
		if g == "int16" || g == "pg:Int2" {
			lo, hi = math.MinInt16, math.MaxInt16
		}
		v.I = genInt(r, lo, hi)
	case "int8":
		lo, hi := int64(math.MinInt64), int64(math.MaxInt64)
		if g == "int32" || g == "pg:Int4" {
			lo, hi = math.MinInt32, math.MaxInt32
		}
		v.I = genInt(r, lo, hi)
	case "oid":
		v.I = genInt(r, 0, math.MaxUint32)
		if v.I < 0 {
			v.I = 0
		}
	case "f32":
		v.FB = math.Float64bits(float64(float32(r.Float64())))
	case "f64":
		v.FB = math.Float64bits(r.Float64())
	case "text":
		v.S = r.Str(r.PickInt(0, 0, 1, 3, 8, 20))
	case "chars":
		v.S = r.Ident(r.PickInt(1, 3, 8, 20))
	case "doc":
		v.S = r.Pick(`{}`, `[]`, `null`, `true`, `0`, `"x"`, `{"a":1}`, `[1,"é",null]`, `{"k":{"n":[1.5e3,false]}}`, `"`+r.Ident(r.Range(1, 12))+`"`)
	case "bytes":
		v.B = r.Bytes(r.PickInt(0, 0, 1, 2, 7, 33))
	case "uuid":
		v.B = r.Bytes(16)
		if r.Chance(1, 8) {
			v.B = make([]byte, 16)
		}
	case "date":
		v.I = genInt(r, -730000, 2900000) // ~ year 1 .. 9999
	case "ts", "tstz":
		v.I = genInt(r, -63082281600000000, 252455615999999999) // year 1 .. 9999 in microseconds
	}
	if fam == "text" && v.S != "" && r.Chance(1, 25) {
		// strings that look like the text form of other types are still strings
		v.S = r.Pick("+Inf", "-Inf", "Infinity", "-Infinity", "NaN", "true", "f", "NULL", "\\N", "0", "-0", "\\x00", "infinity", "1e5")
	}
	if r.NulStr && fam == "text" && r.Chance(1, 12) {
		// a Go string with NUL bytes in it: DataRow values are length-prefixed, so
		// whatever the library does with such a value the frame must stay well formed
		v.S = r.Pick("\x00", "a\x00b", "ab\x00", "\x00\x00x", r.Str(3)+"\x00"+r.Str(4))
	}
	if fam == "tstz" && r.Chance(1, 3) {
		// the handler's time.Time lives in a zone of its own, also one that is
		// not a whole number of hours away from UTC
		v.Z = int32(r.PickInt(3600, -18000, 19800, 20700, -12600, 34200, 45900, -34200, 50400))
	}
	return v
}

// genNull draws one of the NULL spellings for a column type.
func genNull(r *Rand, oid uint32) Val {
	fam := oidFamily(oid)
	switch r.Intn(3) {
	case 0:
		return Val{G: "nil"}
	case 1:
		for _, k := range goKindsFor[fam] {
			if len(k) > 4 && k[:4] == "ptr:" {
				return Val{G: "nilptr:" + k[4:]}
			}
		}
		return Val{G: "nil"}
	}
	for _, k := range goKindsFor[fam] {
		if len(k) > 3 && k[:3] == "pg:" {
			return Val{G: "inv:" + k[3:]}
		}
	}
	return Val{G: "nil"}
}

func genCols(r *Rand, n int, oids []uint32) []ColSpec {
	cols := make([]ColSpec, n)
	for i := range cols {
		name := r.Ident(r.Range(1, 6))
		if r.Chance(1, 8) {
			name = r.Str(r.Intn(6)) // arbitrary, possibly empty, multi-byte
		} else if r.Chance(1, 25) {
			name = r.Ident(r.PickInt(62, 63, 64, 65, 200, 1000)) // around NAMEDATALEN and beyond
		}
		cols[i] = ColSpec{Name: name, OID: oids[r.Intn(len(oids))], Width: int16(r.PickInt(0, -1, 4, 256)), Table: int32(r.Intn(3)), Attr: int16(r.Intn(4))}
		if r.Chance(1, 6) {
			// a declared type modifier (varchar(n) is n+4): metadata for the client,
			// never a reason to alter the values
			cols[i].Mod = int32(r.PickInt(-1, 5, 6, 9, 14, 260))
		}
	}
	return cols
}

func genRow(r *Rand, cols []ColSpec, nullChance int, typedNull bool) []Val {
	row := make([]Val, len(cols))
	for i, c := range cols {
		if nullChance > 0 && r.Chance(1, nullChance) {
			if typedNull {
				row[i] = genNull(r, c.OID)
			} else {
				row[i] = Val{G: "nil"}
			}
			continue
		}
		row[i] = genVal(r, c.OID)
	}
	return row
}

func genCuts(r *Rand) []int {
	switch r.Intn(6) {
	case 0:
		return nil
	case 1:
		return []int{1}
	case 2:
		return []int{r.Range(1, 4), r.Range(1, 3)}
	case 3:
		return []int{5, 1, 3}
	}
	n := r.Range(1, 6)
	cuts := make([]int, n)
	for i := range cuts {
		cuts[i] = r.PickInt(1, 2, 3, 4, 5, 7, 16, 100, 5000)
	}
	return cuts
}

func startupMsg(user, db string, extra ...[2]string) pgwire.FMsg {
	kv := [][2]string{{"user", user}, {"database", db}}
	kv = append(kv, extra...)
	return pgwire.FMsg{K: "startup", KV: kv}
}

func u32p(v uint32) *uint32 { return &v }
func intp(v int) *int       { return &v }

// CheckEncodableTable verifies, against pgx's pgtype directly (not through the
// library under test), that every (type, Go representation) pair the
// generators call "encodable" is accepted in both formats and that the
// "unencodable" representative is rejected. A failure here is a harness error
// (exit 2), never a verdict.
func CheckEncodableTable() error {
	m := pgtype.NewMap()
	r := NewRand(12345)
	r.Large = true
	for _, oid := range docOIDs {
		for i := 0; i < 200; i++ {
			vals := []Val{genVal(r, oid), genNull(r, oid)}
			for _, v := range vals {
				for _, f := range []int16{0, 1} {
					b, err := m.Encode(oid, f, v.Go(), []byte{})
					if v.G == "strtext" && f == 1 {
						if err == nil {
							return fmt.Errorf("pgtype encodes the Go string %q for oid %d in binary format (classified as unencodable)", v.S, oid)
						}
						continue
					}
					if err != nil {
						return fmt.Errorf("pgtype rejects oid %d fmt %d value %s: %v", oid, f, v, err)
					}
					if v.IsNull() {
						if b != nil {
							return fmt.Errorf("pgtype encodes NULL spelling %s of oid %d as %x", v, oid, b)
						}
						continue
					}
					if b == nil {
						return fmt.Errorf("pgtype encodes %s of oid %d as nil", v, oid)
					}
					got, err := pgwire.Decode(oid, f, b)
					if err != nil {
						return fmt.Errorf("independent decoder rejects pgtype output oid %d fmt %d %s -> %q: %v", oid, f, v, b, err)
					}
					if want := v.Canon(oid); !got.Equal(want) {
						return fmt.Errorf("codec cross-check oid %d fmt %d %s: decoded %s want %s (bytes %q)", oid, f, v, got, want, b)
					}
				}
			}
		}
		if _, err := m.Encode(oid, 0, make(chan int), nil); err == nil {
			return fmt.Errorf("pgtype accepts a chan for oid %d", oid)
		}
	}
	return nil
}

// genExtendDecoy is a short, ordinary session (one int4 row) on a server whose
// ExtendTypes option re-registers text, varchar, timestamp and numeric with
// other codecs. The session itself touches none of them; the cases that run
// after it in the same process - on servers without that option - must not
// notice that it ever ran.
func genExtendDecoy(r *Rand) *Case {
	c := &Case{Variant: "type-extension-decoy", Server: ServerCfg{Limit: 4096, ExtendTypes: r.Range(1, 2), ExtendReal: true}, Programs: map[string]*Program{}}
	c.Programs["k"] = &Program{Stmts: []*StmtProg{{Cols: []ColSpec{{Name: "n", OID: pgwire.OIDInt4}}, Ops: []Op{{K: "row", Row: []Val{{G: "int32", I: int64(r.Intn(100))}}}, {K: "complete", Tag: "SELECT 1"}}}}}
	msgs := []pgwire.FMsg{{K: "Q", S1: "k"}}
	if r.Bool() {
		msgs = append(msgs, pgwire.FMsg{K: "X"})
	}
	for n := r.Range(1, 3); n > 0; n-- {
		c.Conns = append(c.Conns, ConnCase{Steps: []Step{{Msgs: []pgwire.FMsg{startupMsg("ext"+r.Ident(2), "d")}}, {Msgs: msgs}}})
	}
	return c
}

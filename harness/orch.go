package harness

import (
	"bufio"
	"bytes"
	"context"
	"encoding/binary"
	"encoding/json"
	"fmt"
	"os"
	"os/exec"
	"path/filepath"
	"runtime"
	"sort"
	"strconv"
	"strings"
	"sync"
	"sync/atomic"
	"testing"
	"time"
)

// KnownFinding is one entry of /verif/known_findings.json.
type KnownFinding struct {
	Property string `json:"property"`
	Rule     string `json:"rule"`
	Sig      string `json:"sig"`
	Status   string `json:"status"` // open | fixed
	Commit   string `json:"commit,omitempty"`
	What     string `json:"what"`
}

func loadKnown(root string) ([]KnownFinding, error) {
	b, err := os.ReadFile(filepath.Join(root, "known_findings.json"))
	if os.IsNotExist(err) {
		return nil, nil
	}
	if err != nil {
		return nil, err
	}
	var out struct {
		Findings []KnownFinding `json:"findings"`
	}
	if err := json.Unmarshal(b, &out); err != nil {
		return nil, err
	}
	return out.Findings, nil
}

func matchKnown(known []KnownFinding, v Violation) *KnownFinding {
	for i := range known {
		k := &known[i]
		if k.Status == "open" && k.Property == v.Prop && k.Rule == v.Rule && k.Sig == v.Sig {
			return k
		}
	}
	return nil
}

type orchOpts struct {
	root    string // /verif
	prop    *Prop
	tier    string
	seed    uint64
	workers int
	secs    float64
}

func selfExe(race bool) string {
	exe, _ := os.Executable()
	if race {
		return filepath.Join(filepath.Dir(exe), "verif-race.test")
	}
	return filepath.Join(filepath.Dir(exe), "verif.test")
}

type workerOut struct {
	findings []Finding
	report   *WorkerReport
	died     string // stderr tail when the process died abnormally
	hung     bool
	cur      *CaseRef
	race     bool
	exit     int
	shards   int    // how the seeded indices of this worker advance
	seed     uint64 // the seed this worker drew its cases from
}

func readCur(path string, race bool) *CaseRef {
	b, err := os.ReadFile(path)
	if err != nil || len(b) < 9 {
		return nil
	}
	return &CaseRef{Fixed: b[0] == 1, Index: binary.BigEndian.Uint64(b[1:9]), Race: race}
}

func runWorker(o *orchOpts, dir string, shard, shards int, secs float64, race bool, doFixed bool, seed uint64) *workerOut {
	tag := fmt.Sprintf("%s.%d.%v.%d", o.prop.ID, shard, race, seed)
	outPath := filepath.Join(dir, "out."+tag)
	curPath := filepath.Join(dir, "cur."+tag)
	args := []string{"-test.run", "^TestEntry$", "-test.timeout", "0", "worker",
		"--prop", o.prop.ID, "--seed", fmt.Sprint(seed), "--tier", o.tier,
		"--shard", fmt.Sprint(shard), "--shards", fmt.Sprint(shards), "--secs", fmt.Sprint(secs),
		"--out", outPath, "--cur", curPath}
	if race {
		args = append(args, "--race")
	}
	if doFixed {
		args = append(args, "--fixed")
	}
	ctx, cancel := context.WithTimeout(context.Background(), time.Duration((secs+150)*float64(time.Second)))
	defer cancel()
	cmd := exec.CommandContext(ctx, selfExe(race), args...)
	var stderr bytes.Buffer
	cmd.Stderr = &stderr
	cmd.Stdout = &stderr
	raceLog := filepath.Join(dir, "race."+tag)
	cmd.Env = append(os.Environ(), "GOMAXPROCS="+workerProcs())
	if race {
		cmd.Env = append(cmd.Env, "GORACE=log_path="+raceLog+" halt_on_error=0 history_size=2", "VERIF_RACE_LOG="+raceLog)
	}
	err := cmd.Run()
	wo := &workerOut{race: race, shards: shards, seed: seed}
	if f, e := os.Open(outPath); e == nil {
		sc := bufio.NewScanner(f)
		sc.Buffer(make([]byte, 1<<20), 1<<28)
		for sc.Scan() {
			line := sc.Bytes()
			if bytes.HasPrefix(line, []byte(`{"report"`)) {
				var r struct {
					Report *WorkerReport `json:"report"`
				}
				if json.Unmarshal(line, &r) == nil {
					wo.report = r.Report
				}
				continue
			}
			var fd Finding
			if json.Unmarshal(line, &fd) == nil && fd.Case != nil {
				wo.findings = append(wo.findings, fd)
			}
		}
		f.Close()
	}
	if err != nil {
		if ctx.Err() != nil {
			wo.hung = true
		}
		if ee, ok := err.(*exec.ExitError); ok {
			wo.exit = ee.ExitCode()
		} else {
			wo.exit = -1
		}
		s := stderr.String()
		if len(s) > 6000 {
			s = s[:3000] + "\n...\n" + s[len(s)-3000:]
		}
		wo.died = s
		wo.cur = readCur(curPath, race)
	}
	return wo
}

// replayChild runs one case file in a fresh process and returns the violations
// it reproduces (and how the process ended).
func replayChild(path string, race bool, timeout time.Duration) (viol []Violation, died string, hung bool, exit int) {
	ctx, cancel := context.WithTimeout(context.Background(), timeout)
	defer cancel()
	cmd := exec.CommandContext(ctx, selfExe(race), "-test.run", "^TestEntry$", "-test.timeout", "0", "replay", path)
	var out bytes.Buffer
	cmd.Stdout = &out
	cmd.Stderr = &out
	cmd.Env = append(os.Environ(), "GOMAXPROCS="+workerProcs())
	if race {
		raceLog := path + ".racelog"
		cmd.Env = append(cmd.Env, "GORACE=log_path="+raceLog+" halt_on_error=0 history_size=2", "VERIF_RACE_LOG="+raceLog)
		defer func() {
			m, _ := filepath.Glob(raceLog + ".*")
			for _, f := range m {
				os.Remove(f)
			}
		}()
	}
	err := cmd.Run()
	for _, line := range strings.Split(out.String(), "\n") {
		if strings.HasPrefix(line, "REPLAY-RESULT ") {
			var r struct {
				Violations []Violation `json:"violations"`
			}
			if json.Unmarshal([]byte(line[len("REPLAY-RESULT "):]), &r) == nil {
				viol = r.Violations
			}
		}
	}
	if err != nil {
		if ctx.Err() != nil {
			hung = true
		}
		if ee, ok := err.(*exec.ExitError); ok {
			exit = ee.ExitCode()
		} else {
			exit = -1
		}
		if exit != 1 || viol == nil {
			s := out.String()
			if len(s) > 4000 {
				s = s[:2000] + "\n...\n" + s[len(s)-2000:]
			}
			died = s
		}
	}
	return
}

// panicSignature extracts a stable signature from a Go crash: the panic
// message plus the first library frame.
func panicSignature(stderr string) (string, string) {
	msg := ""
	frame := ""
	for _, ln := range strings.Split(stderr, "\n") {
		s := strings.TrimSpace(ln)
		if msg == "" && (strings.HasPrefix(s, "panic: ") || strings.HasPrefix(s, "fatal error: ")) {
			msg = s
			if i := strings.Index(msg, " [recovered]"); i > 0 {
				msg = msg[:i]
			}
		}
		if msg != "" && frame == "" && strings.HasPrefix(s, "github.com/jeroenrinzema/psql-wire") {
			if i := strings.Index(s, "("); i > 0 {
				s = s[:i]
			}
			frame = s
		}
	}
	// strip volatile numbers (addresses, lengths) from the message
	clean := make([]byte, 0, len(msg))
	for i := 0; i < len(msg); i++ {
		c := msg[i]
		if c >= '0' && c <= '9' {
			if len(clean) == 0 || clean[len(clean)-1] != '#' {
				clean = append(clean, '#')
			}
			continue
		}
		clean = append(clean, c)
	}
	return msg, "death " + string(clean) + " @ " + frame
}

func writeReplay(dir, name string, f *Finding) string {
	os.MkdirAll(dir, 0o755) //nolint:errcheck
	path := filepath.Join(dir, name)
	b, _ := json.MarshalIndent(f, "", " ")
	os.WriteFile(path, b, 0o644) //nolint:errcheck
	return path
}

// CheckMain is the orchestrator of `verif check <id>`.
func CheckMain(root, id, tier string, seed uint64) int {
	p := Registry[id]
	if p == nil {
		fmt.Fprintf(os.Stderr, "unknown or unclaimed property %q\n", id)
		return 2
	}
	start := time.Now()
	known, err := loadKnown(root)
	if err != nil {
		fmt.Fprintln(os.Stderr, "known_findings.json:", err)
		return 2
	}
	secs := float64(p.QuickS)
	if tier == "thorough" {
		secs = float64(p.ThoroughS)
	}
	if v := os.Getenv("VERIF_SECS"); v != "" {
		if f, err := strconv.ParseFloat(v, 64); err == nil {
			secs = f
		}
	}
	ncpu := runtime.NumCPU()
	if v := os.Getenv("VERIF_WORKERS"); v != "" {
		if n, err := strconv.Atoi(v); err == nil && n > 0 {
			ncpu = n
		}
	}
	o := &orchOpts{root: root, prop: p, tier: tier, seed: seed, workers: ncpu, secs: secs}
	os.MkdirAll(filepath.Join(root, ".build"), 0o755) //nolint:errcheck
	if stale, _ := filepath.Glob(filepath.Join(root, ".build", "run-"+id+"-*")); len(stale) > 0 {
		for _, d := range stale {
			os.RemoveAll(d) // left behind by an interrupted run of the same check
		}
	}
	dir, err := os.MkdirTemp(filepath.Join(root, ".build"), "run-"+id+"-")
	if err != nil {
		fmt.Fprintln(os.Stderr, err)
		return 2
	}
	defer os.RemoveAll(dir)

	// seeds: quick uses the given seed; thorough adds derived seeds, run in
	// successive waves over all cores.
	seeds := []uint64{seed}
	if tier == "thorough" {
		seeds = append(seeds, Mix(seed, "wave", 1), Mix(seed, "wave", 2))
	}
	raceWorkers := 0
	if p.Race {
		raceWorkers = ncpu / 2
		if p.RaceWorkers > 0 && p.RaceWorkers < raceWorkers {
			raceWorkers = p.RaceWorkers
		}
		if raceWorkers < 1 {
			raceWorkers = 1
		}
	}
	plainWorkers := ncpu - raceWorkers
	if plainWorkers < 1 {
		plainWorkers = 1
	}
	var outs []*workerOut
	for wi, sd := range seeds {
		var wg sync.WaitGroup
		var mu sync.Mutex
		per := secs / float64(len(seeds))
		for s := 0; s < plainWorkers; s++ {
			wg.Add(1)
			go func(s int) {
				defer wg.Done()
				wo := runWorker(o, dir, s, plainWorkers, per, false, wi == 0, sd)
				mu.Lock()
				outs = append(outs, wo)
				mu.Unlock()
			}(s)
		}
		for s := 0; s < raceWorkers; s++ {
			wg.Add(1)
			go func(s int) {
				defer wg.Done()
				wo := runWorker(o, dir, s, raceWorkers, per, true, false, sd)
				mu.Lock()
				outs = append(outs, wo)
				mu.Unlock()
			}(s)
		}
		wg.Wait()
	}

	total := NewStats()
	digests := map[uint64]struct{}{}
	traces := map[uint64]struct{}{}
	var samples []*Case
	var findings []Finding
	fixedDone, seededDone := 0, 0
	harnessTrouble := ""
	// simLimit: some case stalled the simulator itself (a mutex wait inside
	// crypto/tls): no verdict about that case; violations found in other cases
	// of the batch are still reported, and only a batch without any ends in exit 2
	simLimit := ""
	confirmedKinds := map[string]int{}
	for _, wo := range outs {
		if wo.report != nil {
			total.Merge(wo.report.Stats)
			for _, d := range wo.report.Digests {
				digests[d] = struct{}{}
			}
			for _, d := range wo.report.TraceSet {
				traces[d] = struct{}{}
			}
			if len(samples) < 3 {
				samples = append(samples, wo.report.Samples...)
			}
			fixedDone += wo.report.FixedDone
			seededDone += wo.report.SeededDone
		}
		findings = append(findings, wo.findings...)
		if wo.hung && wo.died == "" {
			wo.died = "(worker exceeded its watchdog and was killed)"
		}
		if wo.died != "" {
			if wo.exit == 2 && strings.Contains(wo.died, "HARNESS-ERROR") {
				harnessTrouble = wo.died
				continue
			}
			if wo.cur == nil {
				harnessTrouble = "worker died before running a case:\n" + wo.died
				continue
			}
			// several workers usually die of the same cause: confirm a few, not all
			kind := "death"
			if wo.hung || wo.exit == 3 || strings.Contains(wo.died, "WATCHDOG:") {
				kind = "hang"
			}
			if confirmedKinds[kind] >= map[string]int{"hang": 1, "death": 3}[kind] {
				continue
			}
			// attribute the death to the recorded case and confirm it alone
			var sd uint64 = seed
			c := MakeCase(p, sd, tier, *wo.cur)
			// the worker's seed may be a derived one: try all
			var confirmed *Finding
			stalled := false
			for _, s2 := range seeds {
				c = MakeCase(p, s2, tier, *wo.cur)
				if c == nil {
					continue
				}
				fd := &Finding{Case: c, Ref: *wo.cur, Race: wo.race}
				path := writeReplay(dir, "death.json", fd)
				viol, died, hung, rc := replayChild(path, wo.race, 75*time.Second)
				if rc == 3 || strings.Contains(died, "WATCHDOG:") {
					hung = true
				}
				if died != "" && !hung {
					msg, sig := panicSignature(died)
					fd.Viol = []Violation{{Prop: id, Rule: "process-death", Detail: msg, Sig: sig}}
					confirmed = fd
					break
				}
				if hung && strings.Contains(died, "WATCHDOG-CLASS: simulator-limit") {
					simLimit = "the case stalls the simulator itself (known limit, see DESIGN.md 7.7): " + strings.TrimSpace(died[strings.Index(died, "WATCHDOG-CLASS:"):])
					stalled = true
					break
				}
				if hung {
					fd.Viol = []Violation{{Prop: id, Rule: "hang", Detail: "the simulated run does not terminate: a goroutine of the server blocks forever outside the simulator's control or spins without any transport operation (30 s watchdog, reproduced alone in a fresh process)", Sig: "hang"}}
					confirmed = fd
					break
				}
				if len(viol) > 0 {
					fd.Viol = viol
					confirmed = fd
					break
				}
			}
			if confirmed == nil && stalled {
				continue
			}
			if confirmed == nil && kind == "death" && !wo.cur.Fixed && wo.shards > 0 {
				// state that outlives a Server instance (free lists, pools, package
				// variables, goroutines the library left behind) can make a case lethal
				// only behind the cases that ran before it in the same process: replay
				// it behind the 1, 4, 16, 64 seeded cases that preceded it in its worker
				if c := MakeCase(p, wo.seed, tier, *wo.cur); c != nil {
					for _, k := range []int{1, 4, 16, 64} {
						var prelude []*Case
						for j := k; j >= 1; j-- {
							if d := uint64(j) * uint64(wo.shards); d <= wo.cur.Index {
								if pc := MakeCase(p, wo.seed, tier, CaseRef{Index: wo.cur.Index - d, Race: wo.cur.Race}); pc != nil {
									prelude = append(prelude, pc)
								}
							}
						}
						if len(prelude) == 0 {
							continue
						}
						fd := &Finding{Case: c, Ref: *wo.cur, Race: wo.race, Prelude: prelude}
						path := writeReplay(dir, "death-prelude.json", fd)
						_, died, hung, rc := replayChild(path, wo.race, 120*time.Second)
						if died != "" && !hung && rc != 3 && !strings.Contains(died, "WATCHDOG:") {
							msg, sig := panicSignature(died)
							fd.Viol = []Violation{{Prop: id, Rule: "process-death", Detail: msg + fmt.Sprintf(" [the process dies only when %d earlier case(s) ran before this one in the same process - state that outlives the Server instance; the replay file carries them as its prelude]", len(prelude)), Sig: sig}}
							confirmed = fd
							break
						}
					}
				}
			}
			if confirmed == nil {
				harnessTrouble = "worker died but the recorded case does not reproduce it alone:\n" + wo.died
				continue
			}
			confirmedKinds[kind]++
			harnessTrouble = ""
			findings = append(findings, *confirmed)
		}
	}
	if harnessTrouble != "" {
		fmt.Fprintln(os.Stderr, "HARNESS TROUBLE (exit 2, not a verdict):\n"+harnessTrouble)
		return 2
	}

	// group findings by violation class, minimise one representative per class
	type class struct{ rule, sig string }
	byClass := map[class]*Finding{}
	var order []class
	for i := range findings {
		f := &findings[i]
		for _, v := range f.Viol {
			k := class{v.Rule, v.Sig}
			if _, ok := byClass[k]; !ok {
				cp := *f
				cp.Viol = []Violation{v}
				byClass[k] = &cp
				order = append(order, k)
			}
		}
	}
	sort.Slice(order, func(i, j int) bool {
		if order[i].rule != order[j].rule {
			return order[i].rule < order[j].rule
		}
		return order[i].sig < order[j].sig
	})
	newViolations := 0
	knownHits := 0
	var unconfirmed []string
	replayDir := filepath.Join(root, "replays")
	if old, _ := filepath.Glob(filepath.Join(replayDir, id+"-*.json")); len(old) > 0 {
		for _, f := range old {
			os.Remove(f)
		}
	}
	for n, k := range order {
		if n >= 12 {
			break
		}
		f := byClass[k]
		v := f.Viol[0]
		if kf := matchKnown(known, v); kf != nil {
			knownHits++
			fmt.Printf("KNOWN-FINDING: property=%s %s [%s] %s\n", id, kf.What, v.Rule, v.Sig)
			continue
		}
		min := minimizeFinding(dir, f)
		name := fmt.Sprintf("%s-%s-%d.json", id, sanitize(v.Rule), n)
		path := writeReplay(replayDir, name, min)
		// confirm in a fresh process (a few attempts: the one source of
		// nondeterminism that cannot be seeded, Go map iteration order inside the
		// library, can decide whether some violations manifest in a given run)
		confirmed := false
		for attempt := 0; attempt < 4 && !confirmed; attempt++ {
			viol, died, hung, _ := replayChild(path, f.Race, 120*time.Second)
			for _, rv := range viol {
				if rv.Rule == v.Rule {
					confirmed = true
				}
			}
			if v.Rule == "process-death" && died != "" {
				confirmed = true
			}
			if v.Rule == "hang" && (hung || strings.Contains(died, "WATCHDOG:")) {
				confirmed = true
			}
			if !confirmed && attempt == 1 && min != f {
				// the minimised case may have lost the behaviour: fall back to the original
				path = writeReplay(replayDir, name, f)
			}
		}
		if !confirmed && len(f.Recent) > 0 && v.Rule != "hang" && v.Rule != "process-death" {
			// state that outlives a Server instance (package-level variables, pools,
			// free lists) makes a case depend on what ran before it in the same
			// process: replay it behind the cases that preceded it in its worker
			if withPrelude := confirmWithPrelude(p, tier, dir, f, v); withPrelude != nil {
				min = withPrelude
				path = writeReplay(replayDir, name, min)
				confirmed = true
			}
		}
		if !confirmed {
			// never reported as a violation: a violation comes with a replay file that reproduces it
			// (kept outside replays/ for inspection: the original, unminimised finding)
			keep := filepath.Join(root, ".build", "unconfirmed")
			os.MkdirAll(keep, 0o755) //nolint:errcheck
			kept := writeReplay(keep, name, f)
			unconfirmed = append(unconfirmed, fmt.Sprintf("%s (kept as %s)", v, kept))
			os.Remove(path)
			continue
		}
		newViolations++
		fmt.Printf("violation: %s\n", min.Viol[0])
		fmt.Printf("VIOLATION property=%s replay=%s\n", id, path)
	}

	if len(unconfirmed) > 0 {
		for _, u := range unconfirmed {
			fmt.Fprintf(os.Stderr, "note: observed in the batch but not reproducible from a single-case replay in a fresh process (e.g. state leaking between cases through process-global variables, or dependent on Go map iteration order): %s\n", trunc(u, 400))
		}
		if newViolations == 0 && knownHits == 0 {
			fmt.Fprintln(os.Stderr, "HARNESS TROUBLE: violations were observed but none reproduces from its replay file (exit 2, not a verdict)")
			return 2
		}
	}
	wall := time.Since(start).Seconds()
	if err := writeEvidence(root, p, tier, seed, seeds, total, len(digests), len(traces), samples, fixedDone, seededDone, wall, newViolations, knownHits, raceWorkers > 0); err != nil {
		fmt.Fprintln(os.Stderr, "evidence:", err)
		return 2
	}
	fmt.Printf("%s %s: %d runs (%d enumerated, %d seeded) in %.1fs, %d distinct non-trivial, %d new violation class(es), %d known finding(s)\n",
		id, tier, total.Runs, fixedDone, seededDone, wall, len(digests), newViolations, knownHits)
	if newViolations > 0 {
		if simLimit != "" {
			fmt.Fprintln(os.Stderr, "note: beside the violation(s) above, "+simLimit)
		}
		return 1
	}
	if simLimit != "" {
		fmt.Fprintln(os.Stderr, "HARNESS TROUBLE (exit 2, not a verdict):\n"+simLimit)
		return 2
	}
	if total.Runs == 0 {
		fmt.Fprintln(os.Stderr, "HARNESS TROUBLE: no run was executed")
		return 2
	}
	if tier == "thorough" && newViolations == 0 {
		// determinism is re-proved in every thorough run for this property's engine
		if rc := selfTest(nil, root, []string{"--n", "30", id}); rc != 0 {
			fmt.Fprintln(os.Stderr, "HARNESS TROUBLE: determinism self-test failed (exit 2, not a verdict)")
			return 2
		}
	}
	if newViolations > 0 {
		return 1
	}
	return 0
}

func sanitize(s string) string {
	b := []byte(s)
	for i, c := range b {
		if !(c >= 'a' && c <= 'z' || c >= 'A' && c <= 'Z' || c >= '0' && c <= '9' || c == '-') {
			b[i] = '_'
		}
	}
	return string(b)
}

// minimizeFinding shrinks the case while the same violation class reproduces.
// In-process violations are minimised by a child process running the
// delta-debugger; process deaths and hangs by one child per candidate.
// confirmWithPrelude replays f behind the k cases that preceded it in its
// worker process (k = 1, 2, 4 ... 64); when the violation reproduces that way
// the prelude is shrunk (delta debugging over whole cases) and the finding is
// returned with it. nil: not reproducible this way either.
func confirmWithPrelude(p *Prop, tier, dir string, f *Finding, v Violation) *Finding {
	var prev []*Case
	for _, ref := range f.Recent {
		c := MakeCase(p, f.Seed, tier, ref)
		if c != nil {
			prev = append(prev, c)
		}
	}
	tests := 0
	reproduces := func(prelude []*Case) bool {
		tests++
		fd := &Finding{Case: f.Case, Viol: f.Viol, Ref: f.Ref, Race: f.Race, Prelude: prelude}
		path := writeReplay(dir, "prelude.json", fd)
		viol, _, _, _ := replayChild(path, f.Race, 120*time.Second)
		for _, rv := range viol {
			if rv.Rule == v.Rule {
				return true
			}
		}
		return false
	}
	var prelude []*Case
	for k := 1; ; k *= 2 {
		if k > len(prev) {
			k = len(prev)
		}
		cand := prev[len(prev)-k:]
		if reproduces(cand) {
			prelude = cand
			break
		}
		if k == len(prev) {
			return nil
		}
	}
	// shrink: drop chunks of the prelude while the violation still reproduces
	for chunk := (len(prelude) + 1) / 2; chunk >= 1 && tests < 60; {
		removed := false
		for i := 0; i+chunk <= len(prelude) && tests < 60; {
			cand := append(append([]*Case{}, prelude[:i]...), prelude[i+chunk:]...)
			if len(cand) > 0 && reproduces(cand) {
				prelude = cand
				removed = true
			} else {
				i += chunk
			}
		}
		if chunk == 1 && !removed {
			break
		}
		if chunk > 1 {
			chunk /= 2
		}
	}
	vv := v
	vv.Detail += fmt.Sprintf(" [manifests only after %d earlier case(s) ran in the same process - state that outlives the Server instance; the replay file carries them as its prelude]", len(prelude))
	return &Finding{Case: f.Case, Viol: []Violation{vv}, Ref: f.Ref, Race: f.Race, Prelude: prelude}
}

func minimizeFinding(dir string, f *Finding) *Finding {
	v := f.Viol[0]
	if v.Rule == "hang" {
		return f // every candidate would cost a watchdog period: hangs are reported unminimised
	}
	if v.Rule == "process-death" {
		best := f.Case
		tries := 0
		test := func(c *Case) bool {
			tries++
			if tries > 80 {
				return false
			}
			fd := &Finding{Case: c, Viol: f.Viol, Ref: f.Ref, Race: f.Race, Prelude: f.Prelude}
			path := writeReplay(dir, "cand.json", fd)
			_, died, hung, _ := replayChild(path, f.Race, 60*time.Second)
			if v.Rule == "hang" {
				return hung
			}
			if died == "" || hung {
				return false
			}
			_, sig := panicSignature(died)
			return sig == v.Sig
		}
		best = Minimize(best, test, 80)
		return &Finding{Case: best, Viol: f.Viol, Ref: f.Ref, Race: f.Race, Prelude: f.Prelude}
	}
	in := writeReplay(dir, "min-in.json", f)
	outp := filepath.Join(dir, "min-out.json")
	os.Remove(outp)
	ctx, cancel := context.WithTimeout(context.Background(), 120*time.Second)
	defer cancel()
	cmd := exec.CommandContext(ctx, selfExe(f.Race), "-test.run", "^TestEntry$", "-test.timeout", "0", "minimize", in, outp)
	cmd.Env = append(os.Environ(), "GOMAXPROCS="+workerProcs())
	if f.Race {
		raceLog := filepath.Join(dir, "min.racelog")
		cmd.Env = append(cmd.Env, "GORACE=log_path="+raceLog+" halt_on_error=0 history_size=2", "VERIF_RACE_LOG="+raceLog)
	}
	cmd.Run() //nolint:errcheck
	b, err := os.ReadFile(outp)
	if err != nil {
		return f
	}
	var out Finding
	if json.Unmarshal(b, &out) != nil || out.Case == nil {
		return f
	}
	return &out
}

// MinimizeMain is the child side of in-process minimisation.
func MinimizeMain(t *testing.T, in, outp string) int {
	b, err := os.ReadFile(in)
	if err != nil {
		return 2
	}
	var f Finding
	if json.Unmarshal(b, &f) != nil || f.Case == nil || len(f.Viol) == 0 {
		return 2
	}
	p := Registry[f.Case.Prop]
	if p == nil {
		return 2
	}
	want := f.Viol[0]
	var expired atomic.Bool
	timer := time.AfterFunc(90*time.Second, func() { expired.Store(true) })
	defer timer.Stop()
	var lastViol Violation = want
	test := func(c *Case) bool {
		if expired.Load() {
			return false
		}
		ok := false
		once := true
		x := NewExec()
		runInBubbles(t, 1, func(x *Exec) bool {
			if !once {
				return false
			}
			once = false
			viol, _ := checkOne(p, x, c)
			for _, v := range viol {
				if v.Rule == want.Rule && (f.Race || v.Sig == want.Sig) {
					ok = true
					lastViol = v
				}
			}
			return true
		}, x)
		return ok
	}
	// under -race a report for a given pair of code locations is printed only
	// once per process, so race findings cannot be minimised in-process.
	best := f.Case
	if !(RaceEnabled && want.Rule == "data-race") {
		best = Minimize(f.Case, test, 3000)
		test(best)
	}
	out := &Finding{Case: best, Viol: []Violation{lastViol}, Ref: f.Ref, Race: f.Race}
	ob, _ := json.MarshalIndent(out, "", " ")
	if err := os.WriteFile(outp, ob, 0o644); err != nil {
		return 2
	}
	return 0
}

func writeEvidence(root string, p *Prop, tier string, seed uint64, seeds []uint64, st *Stats, distinct, traces int, samples []*Case, fixedDone, seededDone int, wall float64, viols, known int, raced bool) error {
	var sampleJSON []any
	for _, s := range samples {
		var v any
		json.Unmarshal(s.JSON(), &v) //nolint:errcheck
		sampleJSON = append(sampleJSON, v)
	}
	if len(sampleJSON) > 3 {
		sampleJSON = sampleJSON[:3]
	}
	cov := map[string]any{
		"evaluations":               st.Runs,
		"distinct_nontrivial":       distinct,
		"rule":                      p.Rule,
		"samples":                   sampleJSON,
		"enumerated_cases":          fixedDone,
		"seeded_cases":              seededDone,
		"nontrivial_runs":           st.Nontrivial,
		"simulated_events":          st.Events,
		"simulated_time_note":       "the library has no clock, timer or deadline of its own: ordering uses the global event sequence number (one tick per transport operation, callback and schedule point); in addition clients let the bubble's fake clock advance between steps (fault kind client-idle, 50 ms - 1 h each) and the transport honours any deadline the server sets against that clock; simulated_clock_seconds is the fake-clock time that passed this way",
		"simulated_clock_seconds":   float64(st.SimMs) / 1000,
		"schedule_decisions":        st.Decisions,
		"distinct_interleavings":    traces,
		"fault_kinds_fired":         st.Faults,
		"rare_condition_probes":     st.Probes,
		"distinct_model_states":     len(st.States),
		"model_states_reached":      st.States,
		"deadline_calls":            st.Deadlines,
		"runs_per_hour":             int64(float64(st.Runs) / wall * 3600),
		"seeds":                     seeds,
		"race_detector_shard":       raced,
		"components_real_vs_stub":   p.Components,
		"known_findings_reproduced": known,
	}
	if p.Exhaustive != "" {
		cov["exhaustive_subspace"] = p.Exhaustive
	}
	ev := map[string]any{
		"property_id": p.ID,
		"tier":        tier,
		"seed":        seed,
		"level":       p.Level,
		"coverage":    cov,
		"assumptions": p.Assumptions,
		"wall_s":      wall,
		"violations":  viols,
	}
	b, _ := json.MarshalIndent(ev, "", " ")
	dir := filepath.Join(root, "evidence")
	if r := os.Getenv("VERIF_REPO"); r != "" && r != "/repo" {
		// a run against another source tree (a seeded change in a scratch
		// worktree) is not evidence about /repo: kept apart
		dir = filepath.Join(root, ".build", "evidence-of-other-tree")
	}
	os.MkdirAll(dir, 0o755) //nolint:errcheck
	return os.WriteFile(filepath.Join(dir, p.ID+".json"), b, 0o644)
}

// workerProcs is the GOMAXPROCS of worker, replay and minimiser processes. One
// P: goroutines that the code under test starts on its own (outside the seams
// the simulator owns) are then run by a single-threaded Go scheduler, whose
// choices repeat far better from run to run than those of parallel threads.
// VERIF_WORKER_PROCS overrides it (the determinism self-test sets GOMAXPROCS
// itself).
func workerProcs() string {
	if v := os.Getenv("VERIF_WORKER_PROCS"); v != "" {
		return v
	}
	return "1"
}

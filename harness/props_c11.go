package harness

import (
	"bytes"
	"encoding/binary"
	"fmt"
	"strings"

	"verif/pgwire"
)

const stuffedKey = "STUFFEDPLAINTEXT"

func genC11(r *Rand, tier string) *Case {
	if r.Chance(1, 40) {
		// the SSLRequest of a connection that was accepted just before Close: one
		// byte, 'S' with certificates and 'N' without, as always
		tlsKind := r.Pick("certs", "certs", "empty", "")
		steps := []Step{{Msgs: []pgwire.FMsg{{K: "ssl"}}}}
		if tlsKind != "certs" && r.Bool() {
			steps = append(steps, Step{Msgs: []pgwire.FMsg{startupMsg("u", "d")}})
		}
		return genClosedAtAccept(r, "ssl-request-while-closing", ServerCfg{Limit: 4096, TLS: tlsKind}, steps)
	}
	canary := fmt.Sprintf("CANARY%08x", uint32(r.U64()))
	c := &Case{Server: ServerCfg{Limit: r.PickInt(1000, 4096, 4096, 65536), TLS: r.Pick("certs", "certs", "certs", "empty", "")}, Programs: map[string]*Program{}}
	if c.Server.TLS != "" && r.Chance(1, 3) {
		// the configuration reaches the server through the exported field, or its
		// certificate is added to the configured *tls.Config after NewServer
		c.Server.TLSVia = r.Pick("field", "late-cert")
	}
	if c.Server.TLS == "certs" && r.Chance(1, 8) {
		c.Server.TLSCertValidity = r.Pick("expired", "future")
	}
	if r.Chance(1, 5) {
		c.Server.Auth = "cleartext"
	}
	if r.Chance(1, 4) {
		genGlobalParams(r, c)
	}
	// the session inside TLS also exercises the configured message limit, COPY
	// and middleware: "otherwise behaves exactly like its plaintext equivalent"
	if r.Chance(1, 4) {
		c.Server.MW = []MWSpec{{}}
	}
	genHistory(r, c, histOpts{simple: true, extended: true, copy: r.Chance(1, 4), errs: r.Chance(1, 3), params: true, binary: true, closes: true, multi: true,
		oversized: r.Chance(1, 2), sizes: r.Chance(1, 4), unknown: r.Chance(1, 5), terminate: r.Chance(1, 3), maxUnits: 4})
	if su := &c.Conns[0].Steps[0].Msgs[0]; su.K == "startup" && r.Chance(1, 8) {
		// a startup packet of another protocol version (2.0, 4.0, 1.0, 0.0, 3.99):
		// whatever the server makes of it, it makes the same of it behind an
		// SSLRequest - answered 'N' or 'S' - as on a fresh connection
		su.Proto = uint32(r.PickInt(0x00020000, 0x00040000, 0x00010000, 0x00030063, 0x00000001, 0x7fff0000))
	}
	// every query text and command tag carries the canary
	for _, p := range c.Programs {
		for _, sp := range p.Stmts {
			for i := range sp.Ops {
				if sp.Ops[i].K == "complete" {
					sp.Ops[i].Tag += " " + canary
				}
			}
		}
	}
	cc := &c.Conns[0]
	for si := range cc.Steps {
		for mi := range cc.Steps[si].Msgs {
			m := &cc.Steps[si].Msgs[mi]
			if m.K == "Q" && strings.TrimSpace(m.S1) != "" {
				m.S1 += " " + canary
			}
			if m.K == "P" {
				m.S2 += " " + canary
			}
		}
	}
	c.Expect = map[string]any{"canary": canary}
	if c.Server.TLS != "certs" {
		// no certificates: SSLRequest -> 'N', then the same connection continues
		// in plaintext with a fresh startup packet (or a CancelRequest)
		c.Variant = "declined"
		if r.Chance(1, 5) {
			cc.Steps = []Step{{Msgs: []pgwire.FMsg{{K: "ssl"}}}, {Msgs: []pgwire.FMsg{{K: "cancel"}}}}
			c.Variant = "declined-cancel"
		} else if r.Chance(1, 6) {
			cc.Steps = append([]Step{{Msgs: []pgwire.FMsg{{K: "ssl"}}}, {Msgs: []pgwire.FMsg{{K: "ssl"}}}}, cc.Steps...)
			c.Variant = "declined-twice"
		} else if r.Bool() {
			cc.Steps = append([]Step{{Msgs: []pgwire.FMsg{{K: "ssl"}}}}, cc.Steps...)
		} else {
			// the client does not wait for the 'N': the startup packet travels in
			// the same flight as the SSLRequest and must not be lost
			cc.Steps[0].Msgs = append([]pgwire.FMsg{{K: "ssl"}}, cc.Steps[0].Msgs...)
			c.Variant = "declined-pipelined"
		}
		return c
	}
	tc := &TLSClient{}
	switch r.Intn(3) {
	case 0:
		tc.MaxVer = 0x0303 // TLS 1.2
	case 1:
		tc.MinVer = 0x0304 // TLS 1.3
	}
	if r.Chance(1, 12) {
		// the server is closed gracefully while a command of the TLS session is
		// running: the session must fare exactly like its plaintext equivalent
		// under the same Close (the running command still delivers its reply)
		c.Programs = map[string]*Program{"h": {Stmts: []*StmtProg{{Cols: []ColSpec{{Name: "a", OID: pgwire.OIDText}},
			Ops: []Op{{K: "yield"}, {K: "row", Row: []Val{{G: "string", S: "r1"}}}, {K: "yield"}, {K: "row", Row: []Val{{G: "string", S: "r2"}}}, {K: "complete", Tag: "SELECT 2 " + canary}}}}}}
		c.Server.MW, c.Server.Auth, c.Server.Validator = nil, "", nil
		cc.Steps = []Step{{Msgs: []pgwire.FMsg{startupMsg("u", "d")}}, {Msgs: []pgwire.FMsg{{K: "Q", S1: "h " + canary}}}}
		cc.Cuts = nil
		cc.NoEOF = true
		tc.StayOpen = true
		cc.TLS = tc
		c.Variant = "tls-close-during-command"
		// Close begins once the statement callback runs, and the handler does
		// not get past its first yield before Close has signalled the shutdown
		c.Sched = &SchedCase{Strategy: r.Pick("uniform", "pct"), Depth: 1, MaxSteps: 400000, Closers: []Closer{{Calls: 1}},
			Holds: []Hold{{Task: 2, Point: "closer.start", Until: 1, UntilPoint: "cb.stmt"}, {Task: 1, Point: "op.yield", Until: 2, UntilPoint: "close.signalled"}}}
		return c
	}
	c.Variant = "tls-session"
	if r.Chance(1, 6) {
		// a handler that produces its result in bursts with pauses in between
		// (simulated time passes inside the statement): whatever batches, delays
		// or coalesces output below the session does not change what arrives
		var ops []Op
		for b := r.Range(2, 4); b > 0; b-- {
			ops = append(ops, Op{K: "row", Row: []Val{{G: "string", S: r.Ident(r.PickInt(10, 100, 400))}}, N: r.PickInt(5, 40, 120)})
			ops = append(ops, Op{K: "sleep", Ms: r.PickInt(1, 6, 60, 1000)})
		}
		ops = append(ops, Op{K: "complete", Tag: "SELECT 9 " + canary})
		c.Programs["bursts"] = &Program{Stmts: []*StmtProg{{Cols: []ColSpec{{Name: "a", OID: pgwire.OIDText}}, Ops: ops}}}
		cc.Steps = append(cc.Steps[:1], append([]Step{{Msgs: []pgwire.FMsg{{K: "Q", S1: "bursts " + canary}}}}, cc.Steps[1:]...)...)
	}
	switch r.Intn(10) {
	case 0, 1, 2: // plaintext stuffed behind the SSLRequest
		c.Programs[stuffedKey] = &Program{Stmts: []*StmtProg{{Ops: []Op{{K: "complete", Tag: "STUFFED RAN"}}}}}
		sm := startupMsg("mallory", "db")
		pre := append(sm.Bytes(), (&pgwire.FMsg{K: "Q", S1: stuffedKey}).Bytes()...)
		tc.Pre = pre
		tc.PreSplit = r.Bool()
		c.Variant = "stuffed"
	case 3:
		tc.SSLTwice = true
		c.Variant = "ssl-twice"
	case 4:
		cc.Steps = []Step{{Msgs: []pgwire.FMsg{{K: "cancel"}}}}
		c.Variant = "cancel-after-upgrade"
	case 5:
		tc.AbortAt = r.PickInt(1, 5, 11, 60)
		c.Variant = "abort-handshake"
	case 6: // a second SSLRequest inside the TLS session
		cc.Steps = []Step{{Msgs: []pgwire.FMsg{{K: "ssl"}}}}
		c.Variant = "ssl-inside-tls"
	case 7: // the handshake fails: the client only speaks TLS versions the server refuses
		tc.MinVer, tc.MaxVer = 0x0301, 0x0302
		c.Variant = "handshake-fails"
	}
	if r.Chance(1, 4) {
		// an SSLRequest packet that is longer than 8 bytes: start-up parameters
		// ride behind the request code
		tc.SSLBody = append([]byte("user\x00mallory\x00database\x00db\x00"), 0)
		if r.Bool() {
			tc.SSLBody = r.Bytes(r.PickInt(1, 4, 40))
		}
	}
	if r.Chance(1, 5) {
		// the server asks for a client certificate without verifying it, and the
		// client presents one: it proves nothing, the session is served as in plaintext
		c.Server.TLSClientAuth = r.Pick("request", "require-any")
		tc.Cert = c.Server.TLSClientAuth == "require-any" || r.Chance(2, 3)
	}
	cc.TLS = tc
	if r.Chance(1, 2) {
		// a client that takes its (simulated) time between steps: the upgraded
		// session has no time limit of its own
		for i := range cc.Steps {
			if r.Chance(1, 3) {
				cc.Steps[i].IdleMs = r.PickInt(50, 3000, 11000, 61000, 3600000)
			}
		}
	}
	// (no one-byte segmentation here: every read is a schedule decision and a
	// TLS handshake moves several KiB)
	switch r.Intn(4) {
	case 0:
		cc.Cuts = nil
	case 1:
		cc.Cuts = []int{r.PickInt(16, 64, 100)}
	case 2:
		cc.Cuts = []int{5, 500, 37}
	case 3:
		cc.Cuts = []int{r.PickInt(1000, 5000)}
	}
	var input int64
	for _, st := range cc.Steps {
		for i := range st.Msgs {
			for _, ch := range st.Msgs[i].Encode() {
				input += ch.Len()
			}
		}
	}
	if input > 20000 {
		// every read is a schedule decision: no fine segmentation of bulk input
		cc.Cuts = nil
	}
	c.Sched = &SchedCase{Strategy: r.Pick("uniform", "pct", ""), Depth: 2, MaxSteps: 400000}
	if c.Variant == "tls-session" && r.Chance(1, 8) {
		// three to five earlier peers (whose remote addresses differ in the port
		// only) ask for TLS and break the negotiation off; they are gone before
		// the session under test connects, and it is none of its business
		k := r.Range(3, 5)
		session := c.Conns[0]
		c.Conns = nil
		for i := 0; i < k; i++ {
			d := ConnCase{Steps: []Step{{Msgs: []pgwire.FMsg{startupMsg("gone", "d")}}}}
			d.TLS = &TLSClient{AbortAt: r.PickInt(1, 5, 11, 60)}
			if r.Chance(1, 3) {
				d.TLS = &TLSClient{MinVer: 0x0301, MaxVer: 0x0302}
			}
			c.Conns = append(c.Conns, d)
			c.Sched.Holds = append(c.Sched.Holds, Hold{Task: 1 + k, Point: "conn.start", Until: 1 + i, UntilPoint: "close"})
		}
		c.Conns = append(c.Conns, session)
		c.Expect["earlier_failed_upgrades"] = k
	}
	return c
}

// c11Target is the index of the connection under test (the last one: earlier
// ones are peers whose negotiation failed).
func c11Target(c *Case) int {
	if _, ok := c.Expect["earlier_failed_upgrades"]; ok {
		return len(c.Conns) - 1
	}
	return 0
}

// tlsRecordsOK checks that b is a sequence of TLS records.
func tlsRecordsOK(b []byte) string {
	for len(b) > 0 {
		if len(b) < 5 {
			return fmt.Sprintf("%d trailing byte(s) that are not a TLS record header", len(b))
		}
		typ, ver, l := b[0], binary.BigEndian.Uint16(b[1:]), int(binary.BigEndian.Uint16(b[3:]))
		if typ < 20 || typ > 23 {
			return fmt.Sprintf("record type %d (plaintext on the wire?) near %q", typ, trunc(string(b), 24))
		}
		if ver < 0x0301 || ver > 0x0304 {
			return fmt.Sprintf("record version %#x", ver)
		}
		if l > 1<<14+2048 {
			return fmt.Sprintf("record length %d", l)
		}
		if len(b) < 5+l {
			return fmt.Sprintf("truncated record: %d of %d bytes", len(b)-5, l)
		}
		b = b[5+l:]
	}
	return ""
}

func stepOutBytes(cs *connState, nsteps int) []int {
	start := make([]int, nsteps+1)
	for i := range start {
		start[i] = -1
	}
	prev := 0
	for k, q := range cs.Quiesce {
		for s := prev; s < cs.QStep[k] && s < nsteps; s++ {
			start[s] = q
		}
		if cs.QStep[k] > prev {
			prev = cs.QStep[k]
		}
	}
	out := make([]int, nsteps)
	for s := 0; s < nsteps; s++ {
		if start[s] < 0 {
			continue
		}
		end := len(cs.Out)
		for n := s + 1; n < nsteps; n++ {
			if start[n] >= 0 {
				end = start[n]
				break
			}
		}
		out[s] = end - start[s]
	}
	return out
}

func checkC11(x *Exec, c *Case) ([]Violation, bool) {
	var viol []Violation
	add := func(rule, detail string) {
		viol = append(viol, Violation{Prop: "C11", Rule: rule, Sig: rule + " " + c.Variant, Detail: fmt.Sprintf("[%s] %s", c.Variant, detail)})
	}
	canary, _ := c.Expect["canary"].(string)
	if c.Variant == "ssl-request-while-closing" {
		r := x.Run(c)
		c.Sched.Schedule = r.Schedule
		cs := r.Conns[0]
		if r.HoldsForced > 0 || r.Accepts == 0 {
			x.Probe("ssl_request_while_closing_inconclusive")
			return nil, false
		}
		x.Probe("ssl_request_while_closing")
		want := byte('N')
		if c.Server.TLS == "certs" {
			want = 'S'
		}
		if len(cs.Out) == 0 || cs.Out[0] != want {
			add("ssl-answer", fmt.Sprintf("the connection was accepted just before Server.Close signalled the shutdown; its SSLRequest was answered with %q, want the single byte %q", trunc(string(cs.Out), 12), string(want)))
		} else if want == 'N' {
			t := ParseOut(cs)
			viol = append(viol, GrammarViolation("C11", 0, t)...)
		}
		return viol, true
	}
	if c.Conns[c11Target(c)].TLS == nil {
		// no certificates: T1 ('N') and T5 (plaintext continues), inline engine
		viol2, r, _ := modelCheck("C11", x, c)
		viol = append(viol, viol2...)
		cs := r.Conns[0]
		if len(cs.Out) == 0 || cs.Out[0] != 'N' {
			add("ssl-answer", fmt.Sprintf("SSLRequest without certificates answered with %q, want the single byte 'N'", trunc(string(cs.Out), 8)))
		}
		if (c.Variant == "declined" || c.Variant == "declined-pipelined") && len(cs.cc.Faults) == 0 && len(cs.Out) > 0 && cs.Out[0] == 'N' {
			// T5: after 'N' the connection continues exactly like a fresh one that
			// starts with the same startup packet
			ref := c.Clone()
			rc := &ref.Conns[0]
			if len(rc.Steps) > 0 && len(rc.Steps[0].Msgs) > 0 && rc.Steps[0].Msgs[0].K == "ssl" {
				rc.Steps[0].Msgs = rc.Steps[0].Msgs[1:]
				if len(rc.Steps[0].Msgs) == 0 {
					rc.Steps = rc.Steps[1:]
				}
				rc.Cuts = nil
				rr := x.Run(ref)
				if len(rr.Conns) == 1 {
					got, want := ParseOut(cs), ParseOut(rr.Conns[0])
					if got.Grammar == nil && want.Grammar == nil {
						if Canonical(got.Msgs) != Canonical(want.Msgs) {
							add("declined-differs-from-fresh-startup", fmt.Sprintf("behind a declined SSLRequest the session was answered %q, the same bytes on a fresh connection %q", pgwire.Kinds(got.Msgs), pgwire.Kinds(want.Msgs)))
						} else if a, b := CallbackTrace(cs), CallbackTrace(rr.Conns[0]); a != b {
							add("declined-differs-from-fresh-startup", fmt.Sprintf("behind a declined SSLRequest the callbacks differ from those of the same bytes on a fresh connection:\n  declined: %s\n  fresh:    %s", trunc(strings.ReplaceAll(a, "\n", "; "), 300), trunc(strings.ReplaceAll(b, "\n", "; "), 300)))
						}
					}
				}
			}
		}
		if c.Variant == "declined-cancel" && (len(cs.Out) != 1 || CallbackTrace(cs) != "") {
			add("cancel-after-decline", fmt.Sprintf("CancelRequest after 'N' produced output %q / callbacks %q", trunc(string(cs.Out), 20), CallbackTrace(cs)))
		}
		return viol, true
	}
	// reference: the same session in plaintext on an identically configured server
	ti := c11Target(c)
	ref := c.Clone()
	ref.Server.TLS = ""
	ref.Conns = []ConnCase{ref.Conns[ti]}
	ref.Conns[0].TLS = nil
	ref.Conns[0].Cuts = nil
	var refSched *SchedCase
	if c.Variant == "tls-close-during-command" {
		refSched = ref.Sched
	}
	ref.Sched = nil
	rr := x.Run(ref)
	rcs := rr.Conns[0]
	refT := ParseOut(rcs)
	v := c.Clone()
	v.Conns[ti].TLS.StepBytes = stepOutBytes(rcs, len(ref.Conns[0].Steps))
	r := x.Run(v)
	v.Sched.Schedule = r.Schedule
	*c = *v
	cs := r.Conns[ti]
	handshakeOK := cs.TLSUp
	if handshakeOK {
		x.Probe("tls_upgraded")
		if c.Variant == "stuffed" {
			x.Probe("stuffed_plaintext_dropped_handshake_ok")
		}
	} else if c.Variant == "stuffed" {
		x.Probe("stuffed_plaintext_broke_handshake")
	}
	x.Probe("variant_" + c.Variant)
	// T1
	if cs.SSLAnswer != 'S' || len(cs.Raw) == 0 || cs.Raw[0] != 'S' {
		add("ssl-answer", fmt.Sprintf("SSLRequest with certificates answered with %q, want the single byte 'S'", trunc(string(cs.Raw), 8)))
		return viol, true
	}
	// T2: everything after 'S' is TLS records; the canary never appears on the wire
	if why := tlsRecordsOK(cs.Raw[1:]); why != "" {
		add("plaintext-after-upgrade", "after answering 'S' the server wrote bytes to the raw connection that are not TLS records: "+why)
	}
	if canary != "" && (bytes.Contains(cs.Raw, []byte(canary)) || bytes.Contains(cs.TapC2S, []byte(canary))) {
		add("canary-on-the-wire", "session data appears in clear on the underlying connection")
	}
	// T4: stuffed plaintext is never interpreted
	for _, e := range cs.Events {
		if strings.Contains(e.S, stuffedKey) || strings.Contains(e.S, "mallory") {
			add("stuffed-plaintext-executed", fmt.Sprintf("plaintext pushed ahead of the TLS handshake reached a callback: %s %s", e.K, trunc(e.S, 80)))
			break
		}
	}
	if bytes.Contains(cs.Plain, []byte("STUFFED RAN")) {
		add("stuffed-plaintext-executed", "the reply to the stuffed plaintext query was delivered inside TLS")
	}
	if c.Variant == "tls-close-during-command" {
		// the plaintext equivalent under the same Close: same closer, same hold
		pe := ref.Clone()
		var sc SchedCase
		reencode(refSched, &sc)
		sc.Schedule = nil
		pe.Sched = &sc
		pr := x.Run(pe)
		pcs := pr.Conns[0]
		if !handshakeOK || r.HoldsForced > 0 || pr.HoldsForced > 0 || pr.Outcome != RunIdle {
			x.Probe(fmt.Sprintf("close_during_tls_inconclusive_hs=%v_forced=%d/%d_outcome=%d/%d", handshakeOK, r.HoldsForced, pr.HoldsForced, r.Outcome, pr.Outcome))
			return viol, false
		}
		x.Probe("close_during_tls_command")
		msgs, _ := pgwire.ParseStream(cs.Plain)
		if Canonical(msgs) != Canonical(ParseOut(pcs).Msgs) {
			add("tls-differs-from-plaintext-under-close", fmt.Sprintf("the server was closed while a command of the session was running: inside TLS the client received %q, the plaintext equivalent under the same Close received %q (client events %v)", pgwire.Kinds(msgs), pgwire.Kinds(ParseOut(pcs).Msgs), cs.ClientEvents))
		}
		if CallbackTrace(cs) != CallbackTrace(pcs) {
			add("tls-callbacks-differ", fmt.Sprintf("callback trace inside TLS differs from plaintext under the same Close:\n  tls:   %s\n  plain: %s", trunc(strings.ReplaceAll(CallbackTrace(cs), "\n", "; "), 200), trunc(strings.ReplaceAll(CallbackTrace(pcs), "\n", "; "), 200)))
		}
		return viol, true
	}
	// liveness
	if r.Outcome == RunBudget {
		// the decision budget ran out before the run ended: inconclusive
		x.Probe("run_budget_inconclusive")
		return viol, false
	}
	if r.Outcome != RunIdle || cs.Closed == 0 {
		add("tls-run-stuck", fmt.Sprintf("the run did not finish: outcome=%d parked=%v closed=%d client events=%v", r.Outcome, r.Stuck, cs.Closed, cs.ClientEvents))
		return viol, true
	}
	for _, e := range cs.ClientEvents {
		if e.K == "client-panic" {
			add("harness-client-panic", e.S)
		}
	}
	switch c.Variant {
	case "tls-session", "stuffed":
		if !handshakeOK {
			if c.Variant == "stuffed" {
				// stuffed bytes that were not read ahead are fed to the handshake,
				// which then fails: acceptable (C11 allows both)
				if CallbackTrace(cs) != "" {
					add("callback-without-handshake", "callbacks ran although the TLS handshake failed: "+trunc(CallbackTrace(cs), 100))
				}
				return viol, true
			}
			add("handshake-failed", fmt.Sprintf("the TLS handshake failed: %v", cs.ClientEvents))
			return viol, true
		}
		// T3: TLS session == plaintext session
		msgs, gerr := pgwire.ParseStream(cs.Plain)
		if gerr != nil {
			add("tls-plaintext-malformed", fmt.Sprintf("what the TLS client decrypted is not a well-formed message stream: %v", gerr))
		}
		if Canonical(msgs) != Canonical(refT.Msgs) {
			add("tls-differs-from-plaintext", fmt.Sprintf("inside TLS the server answered %q, in plaintext %q (client events %v)", pgwire.Kinds(msgs), pgwire.Kinds(refT.Msgs), cs.ClientEvents))
		}
		if CallbackTrace(cs) != CallbackTrace(rcs) {
			add("tls-callbacks-differ", fmt.Sprintf("callback trace inside TLS differs from plaintext:\n  tls:   %s\n  plain: %s", trunc(strings.ReplaceAll(CallbackTrace(cs), "\n", "; "), 200), trunc(strings.ReplaceAll(CallbackTrace(rcs), "\n", "; "), 200)))
		}
	case "cancel-after-upgrade", "ssl-inside-tls", "ssl-twice", "abort-handshake", "handshake-fails":
		// T6 and friends: no protocol reply, no callback, closed
		if len(cs.Plain) != 0 {
			add("reply-to-"+c.Variant, fmt.Sprintf("the server replied %q", trunc(string(cs.Plain), 40)))
		}
		if CallbackTrace(cs) != "" {
			add("callback-on-"+c.Variant, "callbacks ran: "+trunc(CallbackTrace(cs), 100))
		}
	}
	return viol, true
}

func init() {
	register(&Prop{
		ID: "C11", Level: "exploration", QuickS: 30, ThoroughS: 480,
		Rule: "seeded TLS scenarios: server configured without TLSConfig / with an empty TLSConfig / with a certificate (1 in 8: expired or not yet valid at the TLS stack's clock - nobody verifies it); client behaviours: SSLRequest then a real crypto/tls handshake (TLS 1.2 or 1.3) then a generated session (simple and extended queries, failing handlers, Terminate) inside TLS; SSLRequest with a plaintext startup+Query stuffed behind it in the same or in the next segment; SSLRequest twice; a second SSLRequest inside TLS; CancelRequest after the upgrade; peer vanishing after 1-60 handshake bytes; against the certificate-less configs SSLRequest -> 'N' -> fresh plaintext startup, SSLRequest twice, or CancelRequest. The TLS client is a real goroutine and, like the server goroutine, a task of the seeded scheduler; both byte directions are tapped below TLS. Oracle: the answer is exactly one byte ('S' iff certificates), everything the server writes afterwards parses as TLS records and neither tapped direction contains the per-run canary carried by every query text and command tag, the decrypted stream and the callback trace equal those of the same session run in plaintext on an identically configured server, stuffed plaintext never reaches a callback, cancel/odd negotiations get no reply and no callback and the connection is closed, the run terminates; every case is E2 variant: the SSLRequest of a connection accepted just before Server.Close signalled the shutdown is answered with the same single byte; non-trivial; distinct = distinct case content hashes; configuration routes (TLSConfig option, exported field assigned after NewServer, certificate added afterwards); clients that let 50 ms - 1 h of simulated time pass between steps (the transport honours deadlines against the fake clock); variant tls-close-during-command: Server.Close pinned inside a running command of the TLS session, compared with the plaintext equivalent under the same Close; startup packets of other protocol versions (1.0, 2.0, 4.0, 3.99, ...) behind the SSLRequest; a sixth of the TLS sessions contain a statement that writes its rows in bursts with 1 ms - 1 s of simulated time in between; a share of the TLS sessions connect after 3-5 peers whose TLS negotiation failed have come and gone; declined SSLRequests are also judged differentially: transcript and callbacks equal those of the same bytes sent on a fresh connection",
		Components: []string{
			"real: Handshake/potentialConnUpgrade/sslUnsupported, crypto/tls server and client (deterministic Rand and Time), the whole serving path on top of the tls.Conn",
			"stub: raw duplex connection (simulated, tapped, every Read/Write of either party a schedule point), certificate (ed25519, generated in-process from a fixed seed), handler programs",
		},
		Assumptions: append(append([]string{}, commonAssumptions...), "crypto/tls is trusted"),
		Gen:         genC11, Check: checkC11,
	})
}

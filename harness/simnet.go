package harness

import (
	"errors"
	"fmt"
	"io"
	"net"
	"os"
	"runtime"
	"runtime/metrics"
	"sync"
	"sync/atomic"
	"testing/synctest"
	"time"

	"verif/pgwire"
)

// Event is one recorded observation, stamped with the simulator's global event
// sequence number (the simulated time of this system, which has no clocks).
type Event struct {
	Seq int64  `json:"seq"`
	K   string `json:"k"`
	S   string `json:"s,omitempty"`
}

// SimAddr is the address of a simulated connection; it carries the
// connection id so that callbacks know which connection they run for.
type SimAddr struct {
	ID int
	// Anon: the address prints like that of a peer on a unix-domain socket or an
	// in-memory pipe - the same text for every connection
	Anon bool
}

func (a SimAddr) Network() string { return "sim" }
func (a SimAddr) String() string {
	if a.Anon {
		return "@"
	}
	return fmt.Sprintf("sim:%d", a.ID)
}

var (
	errSimReset  = errors.New("sim: connection reset by peer")
	errSimBroken = errors.New("sim: broken pipe")
)

// SimConn is the server side of a simulated connection whose client is a
// script interpreted inside Read, on the connection goroutine itself.
type SimConn struct {
	rt   *Runtime
	ID   int
	task int
	cc   *ConnCase

	pending []pgwire.Chunk
	enc     [][]pgwire.Chunk // the steps' bytes, encoded when the connection is set up
	poff    int64
	step    int
	inBytes int64
	eofAt   int64 // -1: none

	reads, writes int
	ops           int64
	budget        int64

	// TornAt/TornLen: a write that failed after TornLen (> 0) of its bytes had
	// reached the peer although the transport went on working: len(Out) at that
	// moment. Whatever the server writes afterwards arrives behind a torn message.
	TornAt, TornLen     int
	TimeoutOut          int    // len(Out) when a Read last reported a transient timeout
	Out                 []byte // bytes of writes the transport reported as successful
	Raw                 []byte // everything that reached the wire, including partial failed writes
	Quiesce             []int  // len(Out) at every quiescence point (server waiting with no input pending)
	QStep               []int  // index of the step fed after that quiescence point (len(steps) = end of input)
	Alloc               []uint64
	LiveStack, LiveHeap []uint64 // MeasureLive samples at quiescence points

	Events       []Event
	Closed       int
	CloseSeq     int64
	broken       bool
	eof          bool
	AfterEnd     int // transport operations issued after EOF / break / close
	Wedged       bool
	Deadlines    int
	IdleMs       int64 // simulated time the client let pass on this connection
	FaultFired   map[string]int
	EmptyReads   int
	Started      bool
	Stalled      bool
	ClosedBefore int // Close calls seen before teardown began (teardown releases parked goroutines, whose deferred Close then runs)
	lastAlloc    uint64
	rdl, wdl     time.Time // deadlines set by the server, judged against the bubble's clock

	// duplex mode (a real client goroutine on the other end, engine E2)
	duplex       bool
	dmu          sync.Mutex
	c2s          []byte
	c2sClosed    bool
	s2cRead      int
	TapC2S       []byte
	SSLAnswer    byte
	TLSUp        bool
	Plain        []byte // what the TLS client decrypted
	ClientEvents []Event
}

func newSimConn(rt *Runtime, id int, cc *ConnCase) *SimConn {
	c := &SimConn{rt: rt, ID: id, cc: cc, eofAt: -1, FaultFired: map[string]int{}}
	// operation budget: generous, but proportional to what the script feeds
	// (the client's bytes are encoded up front, so that the harness's own
	// allocations are not attributed to a step of the server)
	var total int64
	c.enc = make([][]pgwire.Chunk, len(cc.Steps))
	var carry []pgwire.Chunk
	for si, st := range cc.Steps {
		c.enc[si] = append(c.enc[si], carry...)
		carry = nil
		for i := range st.Msgs {
			chunks := st.Msgs[i].Encode()
			if i == len(st.Msgs)-1 && st.HoldBack > 0 && si+1 < len(cc.Steps) {
				// the tail of the last message travels with the next step
				chunks, carry = splitChunks(chunks, int64(st.HoldBack))
			}
			for _, ch := range chunks {
				total += ch.Len()
				if ch.Len() > 0 {
					c.enc[si] = append(c.enc[si], ch)
				}
			}
		}
		for _, ch := range carry {
			total += ch.Len()
		}
	}
	c.budget = 100000 + 3*total
	for _, f := range cc.Faults {
		if f.Kind == "eof-at-byte" {
			c.eofAt = int64(f.At)
		}
	}
	return c
}

func (c *SimConn) rec(k, s string) {
	if c.rt.isFrozen() {
		return
	}
	c.Events = append(c.Events, Event{Seq: c.rt.K.Seq(), K: k, S: s})
}

func (c *SimConn) fault(kind string, idx int) *Fault {
	for i := range c.cc.Faults {
		f := &c.cc.Faults[i]
		if f.Kind == kind && f.At == idx {
			return f
		}
	}
	return nil
}

const afterEndBudget = 100

func (c *SimConn) wedge(why string) {
	c.Wedged = true
	c.rec("wedge", why)
	// Park for good; the driver releases us through Goexit at teardown.
	<-c.rt.never
	runtime.Goexit()
}

func (c *SimConn) pendingLen() int64 {
	var n int64
	for _, ch := range c.pending {
		n += ch.Len()
	}
	return n - c.poff
}

// readLive returns the bytes in use by goroutine stacks and, after a forced
// collection, by live heap objects.
func readLive() (stack, heap uint64) {
	// (stacks first: a collection shrinks stacks that are no longer used)
	s := []metrics.Sample{{Name: "/memory/classes/heap/stacks:bytes"}}
	metrics.Read(s)
	stack = s[0].Value.Uint64()
	runtime.GC()
	s = []metrics.Sample{{Name: "/memory/classes/heap/objects:bytes"}}
	metrics.Read(s)
	return stack, s[0].Value.Uint64()
}

// splitChunks cuts a chunk list after n bytes.
func splitChunks(chunks []pgwire.Chunk, n int64) (head, tail []pgwire.Chunk) {
	for i, ch := range chunks {
		l := ch.Len()
		if n >= l {
			head = append(head, ch)
			n -= l
			continue
		}
		if n > 0 {
			if ch.Pat != nil {
				// (a pattern chunk is cut at a multiple of its period only)
				pl := int64(len(ch.Pat))
				k := n / pl * pl
				if k > 0 {
					head = append(head, pgwire.Chunk{Pat: ch.Pat, N: k})
				}
				tail = append(tail, pgwire.Chunk{Pat: ch.Pat, N: l - k})
			} else {
				head = append(head, pgwire.Chunk{Lit: ch.Lit[:n]})
				tail = append(tail, pgwire.Chunk{Lit: ch.Lit[n:]})
			}
		} else {
			tail = append(tail, ch)
		}
		tail = append(tail, chunks[i+1:]...)
		return head, tail
	}
	return head, nil
}

func readAllocBytes() uint64 {
	s := []metrics.Sample{{Name: "/gc/heap/allocs:bytes"}}
	metrics.Read(s)
	return s[0].Value.Uint64()
}

// Read implements net.Conn. A Read that finds no pending input is the exact
// definition of quiescence: the server consumed everything it was given.
func (c *SimConn) Read(p []byte) (int, error) {
	if c.duplex {
		return c.duplexRead(p)
	}
	c.rt.K.Yield(c.task, "read")
	c.Started = true
	c.ops++
	if c.ops > c.budget {
		c.wedge("operation budget exhausted")
	}
	if c.Closed > 0 {
		c.AfterEnd++
		if c.AfterEnd > afterEndBudget {
			c.wedge("reads continue after the server closed the connection")
		}
		c.rec("read", "closed")
		return 0, net.ErrClosed
	}
	if c.broken {
		c.AfterEnd++
		if c.AfterEnd > afterEndBudget {
			c.wedge("reads continue after the transport failed")
		}
		c.rec("read", "broken")
		return 0, errSimReset
	}
	idx := c.reads
	c.reads++
	if f := c.fault("read-err", idx); f != nil {
		c.broken = true
		c.FaultFired["read-err"]++
		c.rec("read", "fault")
		return 0, errSimReset
	}
	if f := c.fault("read-timeout", idx); f != nil {
		// a transient failure: this Read reports a timeout (a deadline armed by
		// whoever wraps the connection), no byte is lost, later reads succeed
		c.FaultFired["read-timeout"]++
		c.TimeoutOut = len(c.Out)
		c.rec("read", "timeout")
		return 0, timeoutError{"sim: i/o timeout"}
	}
	if f := c.fault("empty-read", idx); f != nil && len(p) > 0 {
		c.FaultFired["empty-read"]++
		c.EmptyReads++
		return 0, nil
	}
	if len(p) == 0 {
		return 0, nil
	}
	for !c.eof && c.pendingLen() == 0 {
		// quiescence point
		if !c.rt.K.enabled && simSleepers.Load() > 0 {
			// engine E1: somebody else - a goroutine the code under test started
			// on its own - is asleep on the simulated clock. The client waits for
			// the server to go idle, so the time passes: sleep along until nobody
			// is asleep, then let the clock tick once more (a sleep on the
			// bubble's clock returns only when every other goroutine is durably
			// blocked or gone).
			for simSleepers.Load() > 0 {
				d := time.Until(time.Unix(0, simSleepUntil.Load()))
				if d <= 0 {
					d = time.Millisecond
				}
				time.Sleep(d)
			}
			time.Sleep(time.Nanosecond)
		}
		c.Quiesce = append(c.Quiesce, len(c.Out))
		if c.cc.Measure {
			now := readAllocBytes()
			c.Alloc = append(c.Alloc, now-c.lastAlloc)
			c.lastAlloc = readAllocBytes()
		}
		if c.cc.MeasureLive {
			st, hp := readLive()
			c.LiveStack = append(c.LiveStack, st)
			c.LiveHeap = append(c.LiveHeap, hp)
		}
		c.pending = nil
		c.poff = 0
		for c.step < len(c.cc.Steps) && len(c.pending) == 0 {
			c.idle(c.cc.Steps[c.step].IdleMs)
			c.pending = c.enc[c.step]
			c.step++
		}
		c.QStep = append(c.QStep, c.step)
		c.rec("quiesce", fmt.Sprintf("out=%d step=%d", len(c.Out), c.step))
		if len(c.pending) == 0 {
			if c.cc.NoEOF {
				c.rec("idle", "")
				if !c.rt.K.enabled {
					// engine E1: the peer stays silent; this goroutine is durably
					// blocked until teardown releases it
					<-c.rt.never
					runtime.Goexit()
				}
				c.rt.K.Block(c.task, "idle", neverReady)
				// only reached at teardown
				return 0, errSimReset
			}
			c.eof = true
		}
	}
	if c.expired(c.rdl, "read") {
		return 0, os.ErrDeadlineExceeded
	}
	if c.eofAt >= 0 && c.inBytes >= c.eofAt && !c.eof {
		c.eof = true
		c.FaultFired["eof-at-byte"]++
	}
	if c.eof {
		c.AfterEnd++
		if c.AfterEnd > afterEndBudget {
			c.wedge("reads continue after end of input")
		}
		c.rec("read", "eof")
		return 0, io.EOF
	}
	n := int64(len(p))
	if len(c.cc.Cuts) > 0 {
		cut := int64(c.cc.Cuts[idx%len(c.cc.Cuts)])
		if cut > 0 && cut < n {
			n = cut
		}
	}
	if c.eofAt >= 0 && c.eofAt-c.inBytes < n {
		n = c.eofAt - c.inBytes
	}
	// one read may span several pipelined messages (a segment boundary is not a
	// message boundary)
	var done int64
	for done < n && len(c.pending) > 0 {
		ch := &c.pending[0]
		m := n - done
		if left := ch.Len() - c.poff; left < m {
			m = left
		}
		if ch.Pat != nil {
			pl := int64(len(ch.Pat))
			for i := int64(0); i < m; i++ {
				p[done+i] = ch.Pat[(c.poff+i)%pl]
			}
		} else {
			copy(p[done:done+m], ch.Lit[c.poff:c.poff+m])
		}
		c.poff += m
		done += m
		if c.poff >= ch.Len() {
			c.pending = c.pending[1:]
			c.poff = 0
		}
	}
	c.inBytes += done
	if done > 0 && c.pendingLen() == 0 && c.step >= len(c.cc.Steps) && !c.cc.NoEOF && c.fault("eof-with-data", -1) != nil {
		// the peer's last bytes and its end of stream arrive in one Read
		// (n > 0 together with io.EOF: legal for any io.Reader)
		c.eof = true
		c.FaultFired["eof-with-data"]++
		c.rec("read", "eof-with-data")
		return int(done), io.EOF
	}
	return int(done), nil
}

//go:norace
func neverReady() bool { return false }

// Write implements net.Conn; the written bytes are the wire tap.
func (c *SimConn) Write(p []byte) (int, error) {
	c.rt.K.Yield(c.task, "write")
	if c.duplex {
		c.dmu.Lock()
		defer c.dmu.Unlock()
	}
	c.ops++
	if c.ops > c.budget {
		c.wedge("operation budget exhausted")
	}
	if c.Closed > 0 {
		c.AfterEnd++
		c.rec("write", "closed")
		return 0, net.ErrClosed
	}
	if c.broken {
		c.AfterEnd++
		if c.AfterEnd > afterEndBudget {
			c.wedge("writes continue after the transport failed")
		}
		c.rec("write", "broken")
		return 0, errSimBroken
	}
	if c.expired(c.wdl, "write") {
		return 0, os.ErrDeadlineExceeded
	}
	idx := c.writes
	c.writes++
	if f := c.fault("write-err", idx); f != nil {
		j := f.Bytes
		if j >= len(p) {
			j = len(p) - 1
		}
		if j < 0 {
			j = 0
		}
		c.Raw = append(c.Raw, p[:j]...)
		c.broken = true
		c.FaultFired["write-err"]++
		c.rec("write", fmt.Sprintf("fault accepted=%d of %d", j, len(p)))
		return j, errSimBroken
	}
	if f := c.fault("write-cancel", idx); f != nil && c.ID >= 0 && c.ID < len(c.rt.Conns) {
		// the session's context ends while this write is under way (a session
		// time limit that expires while the peer is slow to take the data)
		if cs := c.rt.Conns[c.ID]; cs.cancelSession != nil {
			c.FaultFired["write-cancel"]++
			c.rec("write", "session context cancelled")
			cs.cancelSession()
		}
	}
	if f := c.fault("write-stall", idx); f != nil && c.rt.K.enabled {
		// a stalled peer: it stops reading, the server's write never completes
		// (engine E2 only; the goroutine stays blocked until teardown)
		c.FaultFired["write-stall"]++
		c.rec("write", "stalled")
		c.Stalled = true
		c.rt.K.Block(c.task, "write-stall", neverReady)
		return 0, errSimBroken
	}
	if f := c.fault("write-slow", idx); f != nil && !c.rt.isFrozen() {
		c.FaultFired["write-slow"]++
		d := time.Duration(f.Ms) * time.Millisecond
		if !c.wdl.IsZero() && time.Until(c.wdl) < d {
			// the deadline the server armed expires while the peer is stalled:
			// part of the data is out, the write fails with a timeout
			if w := time.Until(c.wdl); w > 0 {
				c.sleep(w)
			}
			j := f.Bytes
			if j >= len(p) {
				j = len(p) - 1
			}
			if j < 0 {
				j = 0
			}
			// (the server armed this deadline itself: what it cut off is its own
			// output, not a transport failure)
			c.Raw = append(c.Raw, p[:j]...)
			c.Out = append(c.Out, p[:j]...)
			c.FaultFired["deadline-exceeded"]++
			c.rec("write", fmt.Sprintf("slow: deadline exceeded, accepted=%d of %d", j, len(p)))
			return j, os.ErrDeadlineExceeded
		}
		c.sleep(d)
	}
	if f := c.fault("write-err-transient", idx); f != nil {
		c.FaultFired["write-err-transient"]++
		// Bytes of the buffer reach the peer before the write fails (a write
		// deadline that expires half-way, a full socket buffer that reports
		// ENOBUFS): they are on the wire
		j := f.Bytes
		if j >= len(p) {
			j = len(p) - 1
		}
		if j < 0 {
			j = 0
		}
		c.Raw = append(c.Raw, p[:j]...)
		if j > 0 && c.TornLen == 0 {
			c.TornAt, c.TornLen = len(c.Out), j
		}
		c.rec("write", fmt.Sprintf("transient-fault accepted=%d of %d", j, len(p)))
		if f.Timeout {
			return j, timeoutError{"sim: i/o timeout"}
		}
		return j, errSimBroken
	}
	c.Out = append(c.Out, p...)
	c.Raw = append(c.Raw, p...)
	c.rec("write", fmt.Sprintf("%d", len(p)))
	return len(p), nil
}

// Close implements net.Conn.
func (c *SimConn) Close() error {
	c.rt.K.Yield(c.task, "close")
	if c.duplex {
		c.dmu.Lock()
		defer c.dmu.Unlock()
	}
	c.Closed++
	if c.Closed == 1 {
		if c.cc.Measure {
			now := readAllocBytes()
			c.Alloc = append(c.Alloc, now-c.lastAlloc)
			c.lastAlloc = now
		}
		c.rec("close", "")
		if n := len(c.Events); n > 0 {
			c.CloseSeq = c.Events[n-1].Seq
		}
		if f := c.fault("close-err", 0); f != nil {
			// the connection is closed, but Close reports an error (as a TLS
			// connection does when its close_notify cannot be written)
			c.FaultFired["close-err"]++
			return errSimBroken
		}
		return nil
	}
	c.rec("close", "again")
	return nil
}

func (c *SimConn) LocalAddr() net.Addr { return SimAddr{ID: -1} }
func (c *SimConn) RemoteAddr() net.Addr {
	// (the first thing the connection's own goroutine does with its connection:
	// under the scheduler it becomes this connection's task here, so that what
	// it does before its first read can be interleaved with Close callers)
	c.rt.K.StartTask(c.task, "conn.start")
	return SimAddr{ID: c.ID, Anon: c.rt.C.Server.SameAddr}
}
func (c *SimConn) SetDeadline(t time.Time) error      { c.Deadlines++; c.rdl, c.wdl = t, t; return nil }
func (c *SimConn) SetReadDeadline(t time.Time) error  { c.Deadlines++; c.rdl = t; return nil }
func (c *SimConn) SetWriteDeadline(t time.Time) error { c.Deadlines++; c.wdl = t; return nil }

// expired reports whether a deadline set by the server has passed on the
// simulated clock (net.Conn semantics: the operation fails with a timeout).
func (c *SimConn) expired(dl time.Time, op string) bool {
	if dl.IsZero() || time.Now().Before(dl) {
		return false
	}
	c.FaultFired["deadline-exceeded"]++
	c.rec(op, "deadline exceeded")
	return true
}

// idle lets simulated time pass on the client's side.
func (c *SimConn) idle(ms int) {
	if ms <= 0 || c.rt.isFrozen() {
		return
	}
	c.FaultFired["client-idle"]++
	c.sleep(time.Duration(ms) * time.Millisecond)
}

// sleep lets d pass on the bubble's fake clock.
func (c *SimConn) sleep(d time.Duration) {
	c.IdleMs += d.Milliseconds()
	bubbleSleep(d)
}

// bubbleSleep sleeps on the bubble's fake clock in a way the joins know about
// (see bubbleWait).
func bubbleSleep(d time.Duration) {
	simSleepUntil.Store(time.Now().Add(d).UnixNano())
	simSleepers.Add(1)
	time.Sleep(d)
	simSleepers.Add(-1)
}

// A goroutine asleep on the bubble's fake clock counts as durably blocked, so
// synctest.Wait alone would mistake a client that lets time pass for a
// quiescent system: the joining goroutine sleeps along until nobody is idling.
var (
	simSleepers   atomic.Int32
	simSleepUntil atomic.Int64
)

func bubbleWait() {
	for {
		synctest.Wait()
		if simSleepers.Load() <= 0 {
			return
		}
		if d := time.Until(time.Unix(0, simSleepUntil.Load())); d > 0 {
			time.Sleep(d)
		} else {
			time.Sleep(time.Millisecond)
		}
	}
}

// SimListener hands out prepared connections, then blocks until Close.
type SimListener struct {
	failed  bool
	task    int // the scheduler task of the accept loop that uses this listener
	rt      *Runtime
	offer   chan net.Conn
	closed  chan struct{}
	nclosed int
	Accepts int
	Events  []Event
}

func newSimListener(rt *Runtime) *SimListener {
	n := maxTasks
	if rt.C != nil && len(rt.C.Conns) >= n {
		n = len(rt.C.Conns) + 1
	}
	// (room for every connection of the case: offering never blocks, a server
	// that stops accepting shows up as connections that were never served)
	return &SimListener{rt: rt, offer: make(chan net.Conn, n), closed: make(chan struct{})}
}

// Accept implements net.Listener.
func (l *SimListener) Accept() (net.Conn, error) {
	l.rt.K.Yield(l.task, "accept")
	select {
	case <-l.closed:
		return nil, net.ErrClosed
	default:
	}
	if sc := l.rt.C.Sched; sc != nil && sc.AcceptErr && !l.failed && l == l.rt.L && l.Accepts == len(l.rt.Conns) {
		l.failed = true
		return nil, errSimAccept
	}
	select {
	case c := <-l.offer:
		l.Accepts++
		return c, nil
	case <-l.closed:
		return nil, net.ErrClosed
	}
}

var errSimAccept = errors.New("sim: accept: too many open files")

// Close implements net.Listener.
func (l *SimListener) Close() error {
	l.nclosed++
	if l.nclosed == 1 {
		close(l.closed)
		if sc := l.rt.C.Sched; sc != nil && sc.ListenerCloseErr {
			return errors.New("sim: listener close: device busy")
		}
		return nil
	}
	return net.ErrClosed
}

// Addr implements net.Listener.
func (l *SimListener) Addr() net.Addr { return SimAddr{ID: -2} }

package harness

import "math"

// Rand is the harness PRNG (splitmix64): specified here, so one integer
// decides everything on every Go release.
type Rand struct {
	s uint64
	// Large lets genVal draw text/bytea values beyond 4 KiB (row values of the
	// checks that ask for it; never message parameters)
	Large bool
	// NulStr lets genVal put NUL bytes into Go strings written to text-like
	// columns (only where the oracle is the wire grammar: the properties do not
	// say whether such a row is delivered or refused, only that what is sent is
	// well formed)
	NulStr bool
}

// NewRand seeds a generator.
func NewRand(seed uint64) *Rand { return &Rand{s: seed} }

// Mix derives a sub-seed from a seed, a label and an index.
func Mix(seed uint64, label string, i uint64) uint64 {
	h := seed ^ 0x9e3779b97f4a7c15
	for j := 0; j < len(label); j++ {
		h = (h ^ uint64(label[j])) * 1099511628211
	}
	h ^= i * 0xbf58476d1ce4e5b9
	r := Rand{s: h}
	r.U64()
	return r.U64()
}

func (r *Rand) U64() uint64 {
	r.s += 0x9e3779b97f4a7c15
	z := r.s
	z = (z ^ (z >> 30)) * 0xbf58476d1ce4e5b9
	z = (z ^ (z >> 27)) * 0x94d049bb133111eb
	return z ^ (z >> 31)
}

// Intn returns a value in [0,n).
func (r *Rand) Intn(n int) int {
	if n <= 0 {
		return 0
	}
	return int(r.U64() % uint64(n))
}

// Range returns a value in [lo,hi].
func (r *Rand) Range(lo, hi int) int { return lo + r.Intn(hi-lo+1) }

// Bool returns true with probability 1/2.
func (r *Rand) Bool() bool { return r.U64()&1 == 1 }

// Chance returns true with probability num/den.
func (r *Rand) Chance(num, den int) bool { return r.Intn(den) < num }

// Pick picks one of the strings.
func (r *Rand) Pick(xs ...string) string { return xs[r.Intn(len(xs))] }

// PickInt picks one of the ints.
func (r *Rand) PickInt(xs ...int) int { return xs[r.Intn(len(xs))] }

// PickBytes chooses one of the byte strings.
func (r *Rand) PickBytes(xs ...[]byte) []byte { return xs[r.Intn(len(xs))] }

// Bytes returns n arbitrary bytes.
func (r *Rand) Bytes(n int) []byte {
	b := make([]byte, n)
	for i := range b {
		b[i] = byte(r.U64())
	}
	return b
}

var alphabet = []rune("abcdefghijklmnopqrstuvwxyzABCDEFGHIJKLMNOPQRSTUVWXYZ0123456789_-. $?'\"\\%=,;()éß√日本🙂\t\n")

// Str returns a NUL-free string of n runes (ASCII, punctuation, multi-byte).
func (r *Rand) Str(n int) string {
	out := make([]rune, n)
	for i := range out {
		out[i] = alphabet[r.Intn(len(alphabet))]
	}
	return string(out)
}

// Ident returns a short identifier-like string.
func (r *Rand) Ident(n int) string {
	const a = "abcdefghijklmnopqrstuvwxyz"
	out := make([]byte, n)
	for i := range out {
		out[i] = a[r.Intn(len(a))]
	}
	return string(out)
}

// Float64 returns an "interesting" float64.
func (r *Rand) Float64() float64 {
	switch r.Intn(12) {
	case 0:
		return 0
	case 1:
		return math.Copysign(0, -1)
	case 2:
		return math.NaN()
	case 3:
		return math.Inf(1)
	case 4:
		return math.Inf(-1)
	case 5:
		return math.MaxFloat64
	case 6:
		return math.SmallestNonzeroFloat64
	case 7:
		return float64(r.Range(-1000, 1000))
	case 8:
		return float64(r.Range(-1000000, 1000000)) / 1000
	}
	return math.Float64frombits(r.U64())
}

package harness

import (
	"fmt"
	"strings"

	"verif/pgwire"
)

// MatchResult is the outcome of checking one connection against the model.
type MatchResult struct {
	OK     bool
	Loose  bool   // some branch stopped judging (property silent)
	Rule   string // violation class when !OK
	Detail string
	Sig    string
	OutIdx []int // per client message: number of backend messages expected to be out after it (accepted branch)
	Depth  int   // client messages judged
	States map[string]struct{}
}

type matcher struct {
	m      *Model
	msgs   []pgwire.FMsg
	out    []pgwire.Msg
	ev     []string
	bestMi int
	bestOi int
	fail   string
	rule   string
	sig    string
	outIdx []int
	loose  bool
	states map[string]struct{}
	steps  int
}

func modelEvents(cs *connState) []string {
	var out []string
	for _, e := range cs.Events {
		switch e.K {
		case "read", "write", "quiesce", "close", "idle", "wedge", "read-wait", "ctx", "retain-corrupt", "auth-custom":
			continue
		}
		out = append(out, e.K+" "+e.S)
	}
	return out
}

func clientKind(c *pgwire.FMsg) string {
	if t := c.TypeByte(); t != 0 {
		if c.K == "D" || c.K == "C" {
			return fmt.Sprintf("%c%c", t, c.Sub)
		}
		return string(t)
	}
	return c.K
}

func (mt *matcher) note(mi, oi int, rule, sig, why string) {
	if mi > mt.bestMi || (mi == mt.bestMi && oi >= mt.bestOi) || mt.fail == "" {
		mt.bestMi, mt.bestOi, mt.fail, mt.rule, mt.sig = mi, oi, why, rule, sig
	}
}

func (mt *matcher) matchExp(exps []Exp, oi int, mi int, ctx string) (int, bool) {
	for _, e := range exps {
		if e.Star {
			for oi < len(mt.out) && mt.out[oi].Type == e.T {
				oi++
			}
			continue
		}
		if oi >= len(mt.out) || mt.out[oi].Type != e.T {
			if e.Opt {
				continue
			}
			got := "end of output"
			if oi < len(mt.out) {
				got = fmt.Sprintf("%q", mt.out[oi].Type)
				if mt.out[oi].Type == 'E' {
					got += fmt.Sprintf(" (%s: %s)", mt.out[oi].Fields['C'], mt.out[oi].Fields['M'])
				}
			}
			mt.note(mi, oi, "wrong-reply", fmt.Sprintf("after %s: want %c got %s", ctx, e.T, strings.SplitN(got, " ", 2)[0]),
				fmt.Sprintf("reply to client message #%d (%s): expected %s, got %s; server output so far %q", mi, ctx, e.Desc, got, pgwire.Kinds(mt.out[:min(oi+1, len(mt.out))])))
			return oi, false
		}
		if e.Check != nil {
			if why := e.Check(&mt.out[oi]); why != "" {
				mt.note(mi, oi, "wrong-content", fmt.Sprintf("%c after %s", e.T, ctx),
					fmt.Sprintf("reply to client message #%d (%s): %s: %s", mi, ctx, e.Desc, why))
				return oi, false
			}
		}
		oi++
	}
	return oi, true
}

func (mt *matcher) rec(st *MState, mi, oi, ei int) bool {
	mt.steps++
	if mt.steps > 20000 {
		mt.loose = true
		return true
	}
	if mt.states != nil {
		mt.states[fmt.Sprintf("%s/%d/%d", st.Phase, len(st.Stmts), len(st.Portals))] = struct{}{}
	}
	if mi >= len(mt.msgs) {
		if oi != len(mt.out) {
			mt.note(mi, oi, "surplus-output", fmt.Sprintf("extra %c at end", mt.out[oi].Type),
				fmt.Sprintf("after the last client message the server sent %d more message(s): %q", len(mt.out)-oi, pgwire.Kinds(mt.out[oi:])))
			return false
		}
		if ei != len(mt.ev) {
			mt.note(mi, oi, "surplus-callback", "extra callback at end", fmt.Sprintf("unexpected callback %q after the last message", mt.ev[ei]))
			return false
		}
		return true
	}
	ctx := clientKind(&mt.msgs[mi])
	for _, b := range mt.m.Step(st, mt.msgs, mi) {
		noi, ok := mt.matchExp(b.Exp, oi, mi, ctx)
		if !ok {
			continue
		}
		nei := ei
		evok := true
		for _, want := range b.Ev {
			if nei >= len(mt.ev) || !eventMatches(want, mt.ev[nei]) {
				got := "<none>"
				if nei < len(mt.ev) {
					got = mt.ev[nei]
				}
				mt.note(mi, noi, "wrong-callback", fmt.Sprintf("%s: want %s got %s", ctx, eventClass(want), eventClass(got)),
					fmt.Sprintf("processing client message #%d (%s): expected callback event %q, observed %q", mi, ctx, trunc(want, 200), trunc(got, 200)))
				evok = false
				break
			}
			nei++
		}
		if !evok {
			continue
		}
		if b.Loose {
			mt.loose = true
			return true
		}
		last := mi + b.Consumed - 1
		if b.End {
			if noi != len(mt.out) {
				mt.note(mi, noi, "output-after-end", fmt.Sprintf("%s: %c after end", ctx, mt.out[noi].Type),
					fmt.Sprintf("client message #%d (%s) must end the connection, but the server went on to send %q", mi, ctx, pgwire.Kinds(mt.out[noi:])))
				continue
			}
			if nei != len(mt.ev) {
				mt.note(mi, noi, "callback-after-end", fmt.Sprintf("%s: callback after end", ctx),
					fmt.Sprintf("client message #%d (%s) must end the connection, but callback %q ran afterwards", mi, ctx, mt.ev[nei]))
				continue
			}
			for k := mi; k < len(mt.msgs); k++ {
				mt.outIdx[k] = noi
			}
			return true
		}
		save := append([]int(nil), mt.outIdx[mi:min(last+1, len(mt.outIdx))]...)
		for k := mi; k <= last && k < len(mt.outIdx); k++ {
			mt.outIdx[k] = -1 // replies due in the middle of a multi-message exchange (COPY) are not fixed
			if k == last {
				mt.outIdx[k] = noi
			}
		}
		if mt.rec(b.Next, last+1, noi, nei) {
			return true
		}
		copy(mt.outIdx[mi:], save)
	}
	return false
}

// eventMatches compares an expected callback event with an observed one; an
// expectation ending in " *" fixes only the prefix (the return value of that
// call is not fixed by the property).
func eventMatches(want, got string) bool {
	if strings.HasSuffix(want, " *") {
		return strings.HasPrefix(got, want[:len(want)-1])
	}
	return want == got
}

// eventClass reduces a callback event to its kind ("parse", "op row", ...) for
// violation-class signatures.
func eventClass(ev string) string {
	f := strings.Fields(ev)
	if len(f) == 0 {
		return "<none>"
	}
	if f[0] == "op" && len(f) >= 3 {
		return "op " + f[2]
	}
	return f[0]
}

func firstWords(s string, n int) string {
	var f []string
	for _, w := range strings.Fields(s) {
		if len(w) > 0 && w[0] >= '0' && w[0] <= '9' {
			continue // indices and counters do not belong in a violation-class signature
		}
		f = append(f, w)
	}
	if len(f) > n {
		f = f[:n]
	}
	return strings.Join(f, " ")
}

// FlatMsgs returns the client messages of a connection in order.
func (cc *ConnCase) FlatMsgs() []pgwire.FMsg {
	var out []pgwire.FMsg
	for _, st := range cc.Steps {
		out = append(out, st.Msgs...)
	}
	return out
}

// MatchConn checks the transcript and callback trace of a fault-free
// connection against the reference model.
func MatchConn(c *Case, cs *connState, t *Transcript) *MatchResult {
	return MatchConnModel(NewModel(c), c, cs, t)
}

// MatchConnModel is MatchConn with a caller-configured model.
func MatchConnModel(model *Model, c *Case, cs *connState, t *Transcript) *MatchResult {
	mt := &matcher{m: model, msgs: cs.cc.FlatMsgs(), out: t.Msgs, ev: modelEvents(cs), states: map[string]struct{}{}}
	mt.outIdx = make([]int, len(mt.msgs))
	res := &MatchResult{}
	res.OK = mt.rec(mt.m.Start(), 0, 0, 0)
	res.Loose = mt.loose
	res.OutIdx = mt.outIdx
	res.States = mt.states
	if !res.OK {
		res.Rule, res.Detail, res.Sig = mt.rule, mt.fail, mt.sig
		return res
	}
	// "delivered without waiting for further client input": at every quiescence
	// point the replies to everything fed so far must already be on the wire
	if !res.Loose {
		msgCount := cs.cc.CompletedBefore()
		offs := make([]int, len(t.Msgs)+1)
		for i, m := range t.Msgs {
			offs[i] = m.Off + t.Base
		}
		offs[len(t.Msgs)] = len(cs.Out)
		for k, q := range cs.Quiesce {
			fed := msgCount[cs.QStep[k]]
			if k == 0 || fed == 0 {
				continue
			}
			// fed counts messages handed over at or before this quiescence
			// point's refill; the replies due are those to messages fed before it
			prevFed := msgCount[cs.QStep[k-1]]
			if prevFed == 0 {
				continue
			}
			want := res.OutIdx[prevFed-1]
			if want < 0 {
				continue
			}
			have := 0
			for have < len(t.Msgs) && offs[have+1] <= q {
				have++
			}
			if have > want && prevFed < len(mt.msgs) && cs.cc.Steps[cs.QStep[k-1]-1].HoldBack > 0 && cs.cc.heldBack(cs.QStep[k-1]-1) {
				// the flight fed last ended in the middle of a message: whatever was
				// sent beyond the replies to the complete messages answers a message
				// the server has not received in full
				res.OK = false
				res.Rule = "reply-before-message-complete"
				res.Sig = "reply before complete " + clientKind(&mt.msgs[prevFed])
				res.Detail = fmt.Sprintf("server is waiting for the rest of client message #%d (%s), of which only a part has been delivered, but has already sent %d reply message(s) beyond the %d due for the complete messages (got %q)",
					prevFed, clientKind(&mt.msgs[prevFed]), have-want, want, pgwire.Kinds(t.Msgs[:have]))
				return res
			}
			if have < want {
				res.OK = false
				res.Rule = "reply-withheld"
				res.Sig = "reply withheld after " + clientKind(&mt.msgs[prevFed-1])
				res.Detail = fmt.Sprintf("server is waiting for input after client message #%d (%s) but only %d of the %d reply message(s) due have been sent (got %q)",
					prevFed-1, clientKind(&mt.msgs[prevFed-1]), have, want, pgwire.Kinds(t.Msgs[:have]))
				return res
			}
		}
	}
	return res
}

package harness

import (
	"context"
	"encoding/hex"
	"errors"
	"fmt"
	"io"
	"math"
	"net"
	"reflect"
	"strings"
	"syscall"
	"time"

	"github.com/jackc/pgx/v5/pgtype"
	wire "github.com/jeroenrinzema/psql-wire"
	"github.com/jeroenrinzema/psql-wire/codes"
	psqlerr "github.com/jeroenrinzema/psql-wire/errors"
	"github.com/lib/pq/oid"

	"verif/pgwire"
)

// Program scripts what the user's ParseFn returns for one query key and what
// each returned statement function does.
type Program struct {
	ParseErr *ErrSpec    `json:"perr,omitempty"`
	Stmts    []*StmtProg `json:"stmts,omitempty"`
	// Partial: a failing parser hands back the statements it had parsed so far
	// together with its error (an error means the query was rejected)
	Partial bool `json:"partial,omitempty"`
}

// StmtProg is one prepared statement: declared columns and parameter types,
// and the scripted body of its statement function.
type StmtProg struct {
	Cols   []ColSpec `json:"cols,omitempty"`
	Params []uint32  `json:"params,omitempty"`
	PP     bool      `json:"pp,omitempty"` // declared parameters = ParseParameters(query)
	Ops    []Op      `json:"ops,omitempty"`
}

// ColSpec declares a result column.
type ColSpec struct {
	Name  string `json:"name"`
	OID   uint32 `json:"oid"`
	Width int16  `json:"width,omitempty"`
	Table int32  `json:"table,omitempty"`
	Attr  int16  `json:"attr,omitempty"`
	Mod   int32  `json:"mod,omitempty"` // type modifier the handler declares (varchar(n): n+4)
}

// Op is one scripted action of a statement function. Every op records what it
// observed (return values) in the connection's event log.
//
//	row        Row(values)                     written   Written()
//	complete   Complete(tag)                   empty     Empty()
//	copyin     CopyIn(fmt)                     copyread  N x CopyReader.Read (stops at first error)
//	copyall    CopyReader.Read until an error  binrows   BinaryCopyReader.Read until an error
//	params     record count/value/format of the parameters
//	scan       Parameter.Scan(declared oid) for every parameter
//	retain     keep the parameter slices (checked later for overwrites)
//	ctx        record what the context carries
//	yield      schedule point (engine E2)
//	return     return Err (nil = success)       retlast   return the last error an op produced
type Op struct {
	K   string `json:"k"`
	Row []Val  `json:"row,omitempty"`
	Tag string `json:"tag,omitempty"`
	Fmt int16  `json:"fmt,omitempty"`
	N   int    `json:"n,omitempty"`
	// Flip (binrows): every Read gets a context of its own that reports itself
	// cancelled from its Flip-th Err() call on (a per-row time limit that runs
	// out while the row is being read); when a Read fails with that
	// cancellation the handler reads again with its live context
	Flip int `json:"flip,omitempty"`
	// Ms (sleep, cancel): simulated milliseconds the handler lets pass on the
	// bubble's clock (for cancel: right after cancelling the session context)
	Ms int `json:"ms,omitempty"`
	// Reuse (row): the handler keeps one []any of pointers to its own variables
	// for consecutive rows, assigns the variables and hands the same slice to Row
	Reuse bool `json:"reuse,omitempty"`
	// Quiet (binrows): rows are counted, not recorded one by one (very long streams)
	Quiet bool `json:"quiet,omitempty"`
	// CancelIn (row, 1-based column): that column's value is handed over as a
	// pgtype.TextValuer whose TextValue() cancels the session context - a time
	// limit that runs out while that very value is being encoded
	CancelIn int `json:"cancel_in,omitempty"`
	// YieldIn (row, 1-based column): that column's string value is handed over
	// as a pgtype.TextValuer whose TextValue() is a schedule point - user code
	// that runs in the middle of the encoding of a row, i.e. while the
	// library is between starting and finishing a message
	YieldIn int      `json:"yield_in,omitempty"`
	Err     *ErrSpec `json:"err,omitempty"`
	OIDs    []uint32 `json:"oids,omitempty"`
}

// ErrSpec builds an error with the library's decorators applied in Order
// (innermost first); 'w' stands for fmt.Errorf("ctx: %w").
type ErrSpec struct {
	Msg        string `json:"msg"`
	Code       string `json:"code,omitempty"`
	Sev        string `json:"sev,omitempty"`
	Hint       string `json:"hint,omitempty"`
	Detail     string `json:"detail,omitempty"`
	SrcFile    string `json:"srcfile,omitempty"`
	SrcLine    int32  `json:"srcline,omitempty"`
	SrcFunc    string `json:"srcfunc,omitempty"`
	Constraint string `json:"constraint,omitempty"`
	Order      string `json:"order,omitempty"` // letters: c s h d o(source) n(constraint) w(wrap)
	// Wraps: the innermost error wraps a well-known sentinel of another layer
	// (a handler that proxies to a backend whose connection broke): eof |
	// unexpected-eof | closed-pipe | net-closed | epipe | econnreset
	Wraps string `json:"wraps,omitempty"`
	// Kind: "" (built from the fields above) | "slice" (a slice-typed, hence
	// unhashable, error value carrying Msg) | "reused" (the session's one error
	// object, whose text is replaced for every failure); both undecorated
	Kind string `json:"kind,omitempty"`
	// Join: the error is errors.Join(this, Join...) - several causes, one failure
	Join []*ErrSpec `json:"join,omitempty"`
}

// Build constructs the Go error.
func (e *ErrSpec) Build() error {
	if e == nil {
		return nil
	}
	if e.Kind == "slice" {
		// an error whose dynamic type is a slice (like go/scanner.ErrorList): not
		// comparable, not hashable - and an error like any other
		return errList{errors.New(e.Msg)}
	}
	var err error = errors.New(e.Msg)
	if sent := wrappedSentinel(e.Wraps); sent != nil {
		err = fmt.Errorf("%s: %w", e.Msg, sent)
	}
	order := e.Order
	if order == "" {
		order = "cshdon"
	}
	for _, ch := range order {
		switch ch {
		case 'c':
			if e.Code != "" {
				err = psqlerr.WithCode(err, codes.Code(e.Code))
			}
		case 's':
			if e.Sev != "" {
				err = psqlerr.WithSeverity(err, psqlerr.Severity(e.Sev))
			}
		case 'h':
			if e.Hint != "" {
				err = psqlerr.WithHint(err, e.Hint)
			}
		case 'd':
			if e.Detail != "" {
				err = psqlerr.WithDetail(err, e.Detail)
			}
		case 'o':
			if e.SrcFile != "" || e.SrcFunc != "" || e.SrcLine != 0 {
				err = psqlerr.WithSource(err, e.SrcFile, e.SrcLine, e.SrcFunc)
			}
		case 'n':
			if e.Constraint != "" {
				err = psqlerr.WithConstraintName(err, e.Constraint)
			}
		case 'w':
			err = fmt.Errorf("ctx: %w", err)
		}
	}
	if len(e.Join) > 0 {
		all := []error{err}
		for _, j := range e.Join {
			all = append(all, j.Build())
		}
		err = errors.Join(all...)
	}
	return err
}

// errList is a slice-typed error.
type errList []error

func (l errList) Error() string {
	var parts []string
	for _, e := range l {
		parts = append(parts, e.Error())
	}
	return strings.Join(parts, "; ")
}

// mutableErr is the one error object a session keeps and fills in anew for
// every failure (ErrSpec.Kind "reused").
type mutableErr struct{ msg string }

func (m *mutableErr) Error() string { return m.msg }

// buildErr builds the error of a spec for this connection.
func (c *connState) buildErr(e *ErrSpec) error {
	if e != nil && e.Kind == "reused" {
		if c.reusedErr == nil {
			c.reusedErr = &mutableErr{}
		}
		c.reusedErr.msg = e.Msg
		return c.reusedErr
	}
	return e.Build()
}

// ExpectedMessage is the text the ErrorResponse must carry in its M field.
func wrappedSentinel(name string) error {
	switch name {
	case "eof":
		return io.EOF
	case "unexpected-eof":
		return io.ErrUnexpectedEOF
	case "closed-pipe":
		return io.ErrClosedPipe
	case "net-closed":
		return net.ErrClosed
	case "epipe":
		return syscall.EPIPE
	case "econnreset":
		return syscall.ECONNRESET
	}
	return nil
}

func (e *ErrSpec) ExpectedMessage() string {
	if e.Kind != "" {
		return e.Msg
	}
	msg := e.Msg
	if sent := wrappedSentinel(e.Wraps); sent != nil {
		msg = e.Msg + ": " + sent.Error()
	}
	order := e.Order
	if order == "" {
		order = "cshdon"
	}
	for _, ch := range order {
		if ch == 'w' {
			msg = "ctx: " + msg
		}
	}
	return msg
}

// Val is a value a handler writes into a row, in a chosen Go representation.
//
//	G: nil bool int16 int32 int64 int uint32 float32 float64 string bytes
//	   uuid ([16]byte) time date
//	   pg:<Bool|Int2|Int4|Int8|Float4|Float8|Text|UUID|Uint32> (valid pgtype struct)
//	   inv:<same>   invalid (NULL) pgtype struct
//	   ptr:<basic>  pointer to the basic value     nilptr:<basic>  typed nil pointer
//	   chan         a value no codec can encode
type Val struct {
	G  string `json:"g"`
	I  int64  `json:"i,omitempty"`
	FB uint64 `json:"fb,omitempty"` // float64 bits
	S  string `json:"s,omitempty"`
	B  []byte `json:"b,omitempty"`
	// Z (timestamptz values): the zone offset in seconds of the time.Time the
	// handler holds (the instant is I either way)
	Z int32 `json:"z,omitempty"`
}

// inZone puts a timestamptz value into the zone its holder uses.
func (v Val) inZone(t time.Time) time.Time {
	if v.Z != 0 {
		return t.In(time.FixedZone("", int(v.Z)))
	}
	return t
}

func (v Val) String() string {
	switch {
	case v.G == "nil" || strings.HasPrefix(v.G, "nilptr:") || strings.HasPrefix(v.G, "inv:"):
		return v.G
	case v.S != "":
		return fmt.Sprintf("%s(%q)", v.G, v.S)
	case v.B != nil:
		return fmt.Sprintf("%s(%x)", v.G, v.B)
	case v.FB != 0:
		return fmt.Sprintf("%s(%v)", v.G, math.Float64frombits(v.FB))
	}
	return fmt.Sprintf("%s(%d)", v.G, v.I)
}

// IsNull reports whether the value denotes SQL NULL.
func (v Val) IsNull() bool {
	return v.G == "nil" || strings.HasPrefix(v.G, "nilptr:") || strings.HasPrefix(v.G, "inv:")
}

var pgEpoch = time.Date(2000, 1, 1, 0, 0, 0, 0, time.UTC)

const pgEpochUnix = 946684800

// microsTime converts microseconds since 2000-01-01 to a time.Time without
// going through time.Duration (which overflows after ~292 years).
func microsTime(us int64) time.Time {
	sec := us / 1000000
	rem := us % 1000000
	if rem < 0 {
		rem += 1000000
		sec--
	}
	return time.Unix(pgEpochUnix+sec, rem*1000).UTC()
}

func timeMicros(t time.Time) int64 {
	return (t.Unix()-pgEpochUnix)*1000000 + int64(t.Nanosecond()/1000)
}

func basicGo(g string, v Val) (any, bool) {
	switch g {
	case "bool":
		return v.I != 0, true
	case "int16":
		return int16(v.I), true
	case "int32":
		return int32(v.I), true
	case "int64":
		return v.I, true
	case "int":
		return int(v.I), true
	case "uint32":
		return uint32(v.I), true
	case "float32":
		return float32(math.Float64frombits(v.FB)), true
	case "float64":
		return math.Float64frombits(v.FB), true
	case "string":
		return v.S, true
	case "bytes":
		b := v.B
		if b == nil {
			b = []byte{}
		}
		return b, true
	case "uuid":
		var u [16]byte
		copy(u[:], v.B)
		return u, true
	case "date":
		return pgEpoch.AddDate(0, 0, int(v.I)), true
	case "time":
		return v.inZone(microsTime(v.I)), true
	}
	return nil, false
}

func ptrTo(x any) any {
	switch t := x.(type) {
	case bool:
		return &t
	case int16:
		return &t
	case int32:
		return &t
	case int64:
		return &t
	case int:
		return &t
	case uint32:
		return &t
	case float32:
		return &t
	case float64:
		return &t
	case string:
		return &t
	case []byte:
		return &t
	case [16]byte:
		return &t
	case time.Time:
		return &t
	}
	panic(fmt.Sprintf("ptrTo %T", x))
}

func nilPtr(g string) any {
	switch g {
	case "bool":
		return (*bool)(nil)
	case "int16":
		return (*int16)(nil)
	case "int32":
		return (*int32)(nil)
	case "int64":
		return (*int64)(nil)
	case "int":
		return (*int)(nil)
	case "uint32":
		return (*uint32)(nil)
	case "float32":
		return (*float32)(nil)
	case "float64":
		return (*float64)(nil)
	case "string":
		return (*string)(nil)
	case "bytes":
		return (*[]byte)(nil)
	case "uuid":
		return (*[16]byte)(nil)
	case "time", "date":
		return (*time.Time)(nil)
	}
	panic("nilPtr " + g)
}

func pgStruct(name string, v Val, valid bool) any {
	switch name {
	case "Bool":
		return pgtype.Bool{Bool: v.I != 0, Valid: valid}
	case "Int2":
		return pgtype.Int2{Int16: int16(v.I), Valid: valid}
	case "Int4":
		return pgtype.Int4{Int32: int32(v.I), Valid: valid}
	case "Int8":
		return pgtype.Int8{Int64: v.I, Valid: valid}
	case "Float4":
		return pgtype.Float4{Float32: float32(math.Float64frombits(v.FB)), Valid: valid}
	case "Float8":
		return pgtype.Float8{Float64: math.Float64frombits(v.FB), Valid: valid}
	case "Text":
		return pgtype.Text{String: v.S, Valid: valid}
	case "UUID":
		var u [16]byte
		copy(u[:], v.B)
		return pgtype.UUID{Bytes: u, Valid: valid}
	case "Uint32":
		return pgtype.Uint32{Uint32: uint32(v.I), Valid: valid}
	case "Date":
		return pgtype.Date{Time: pgEpoch.AddDate(0, 0, int(v.I)), Valid: valid}
	case "Timestamp":
		return pgtype.Timestamp{Time: microsTime(v.I), Valid: valid}
	case "Timestamptz":
		return pgtype.Timestamptz{Time: v.inZone(microsTime(v.I)), Valid: valid}
	}
	panic("pgStruct " + name)
}

// Go builds the Go value handed to DataWriter.Row.
func (v Val) Go() any {
	switch {
	case v.G == "nil":
		return nil
	case v.G == "chan":
		return make(chan int)
	case v.G == "strtext":
		return v.S // a Go string holding the text form of a non-text value
	case strings.HasPrefix(v.G, "pg:"):
		return pgStruct(v.G[3:], v, true)
	case strings.HasPrefix(v.G, "inv:"):
		return pgStruct(v.G[4:], v, false)
	case strings.HasPrefix(v.G, "ptr:"):
		x, ok := basicGo(v.G[4:], v)
		if !ok {
			panic("Val.Go " + v.G)
		}
		return ptrTo(x)
	case strings.HasPrefix(v.G, "nilptr:"):
		return nilPtr(v.G[7:])
	}
	x, ok := basicGo(v.G, v)
	if !ok {
		panic("Val.Go " + v.G)
	}
	return x
}

// Canon is the canonical SQL value the client must decode when v is written
// into a column of the given type (generators only pair compatible kinds).
func (v Val) Canon(oidv uint32) pgwire.Value {
	if v.IsNull() {
		return pgwire.Value{Null: true}
	}
	if v.G == "strtext" {
		cv, err := pgwire.Decode(oidv, 0, []byte(v.S))
		if err != nil {
			return pgwire.Value{Kind: "?"}
		}
		return cv
	}
	kind := pgwire.KindOf(oidv)
	switch kind {
	case "bool":
		if v.I != 0 {
			return pgwire.Value{Kind: "bool", I: 1}
		}
		return pgwire.Value{Kind: "bool"}
	case "int", "date", "ts":
		return pgwire.Value{Kind: kind, I: v.I}
	case "f32":
		return pgwire.Value{Kind: "f32", F: uint64(math.Float32bits(float32(math.Float64frombits(v.FB))))}
	case "f64":
		return pgwire.Value{Kind: "f64", F: v.FB}
	case "text":
		return pgwire.Value{Kind: "text", S: v.S}
	case "bytes":
		b := v.B
		if b == nil {
			b = []byte{}
		}
		return pgwire.Value{Kind: "bytes", B: b}
	case "uuid":
		u := make([]byte, 16)
		copy(u, v.B)
		return pgwire.Value{Kind: "uuid", B: u}
	}
	return pgwire.Value{Kind: "?"}
}

// CanonOfGo converts a value decoded by the library (Parameter.Scan, binary
// COPY reader) to the canonical form, for comparison with the independent
// codec. It returns false for Go types it does not know.
func CanonOfGo(x any) (pgwire.Value, bool) {
	switch t := x.(type) {
	case nil:
		return pgwire.Value{Null: true}, true
	case bool:
		if t {
			return pgwire.Value{Kind: "bool", I: 1}, true
		}
		return pgwire.Value{Kind: "bool"}, true
	case int16:
		return pgwire.Value{Kind: "int", I: int64(t)}, true
	case int32:
		return pgwire.Value{Kind: "int", I: int64(t)}, true
	case int64:
		return pgwire.Value{Kind: "int", I: t}, true
	case uint32:
		return pgwire.Value{Kind: "int", I: int64(t)}, true
	case float32:
		return pgwire.Value{Kind: "f32", F: uint64(math.Float32bits(t))}, true
	case float64:
		return pgwire.Value{Kind: "f64", F: math.Float64bits(t)}, true
	case string:
		return pgwire.Value{Kind: "text", S: t}, true
	case []byte:
		if t == nil {
			return pgwire.Value{Null: true}, true
		}
		return pgwire.Value{Kind: "bytes", B: append([]byte{}, t...)}, true
	case [16]byte:
		return pgwire.Value{Kind: "uuid", B: append([]byte{}, t[:]...)}, true
	case time.Time:
		// date and timestamp share time.Time; callers fix the kind by OID
		return pgwire.Value{Kind: "ts", I: timeMicros(t)}, true
	case pgtype.InfinityModifier:
		// date / timestamp 'infinity' and '-infinity'
		return pgwire.Value{Kind: "infinity", I: int64(t)}, true
	}
	return pgwire.Value{}, false
}

// ---------------------------------------------------------------------------
// interpreter

// columns returns the handler's column description of a statement. Like the
// table descriptions of a real handler (package-level values, see the
// library's examples) it is ONE value per statement program, built before the
// server starts and handed out to every connection that runs the statement.
func (rt *Runtime) columns(cs []ColSpec) wire.Columns {
	if len(cs) == 0 {
		return nil
	}
	if out, ok := rt.colCache[&cs[0]]; ok {
		return out
	}
	return buildColumns(cs)
}

func buildColumns(cs []ColSpec) wire.Columns {
	out := make(wire.Columns, len(cs))
	for i, c := range cs {
		out[i] = wire.Column{Table: c.Table, Name: c.Name, Oid: oid.Oid(c.OID), Width: c.Width, AttrNo: c.Attr, TypeModifier: c.Mod}
	}
	return out
}

// ProgramKey is the handler-program key of a query text: its first
// space-separated token.
func ProgramKey(query string) string {
	query = strings.TrimLeft(query, " \t\r\n")
	if i := strings.IndexByte(query, ' '); i >= 0 {
		return query[:i]
	}
	return query
}

// FallbackProgram is what the scripted parser returns for a query text that
// names no program: one statement that declares ParseParameters(query) and
// echoes the query in a single text column.
func FallbackProgram() *Program {
	return &Program{Stmts: []*StmtProg{{
		Cols: []ColSpec{{Name: "echo", OID: pgwire.OIDText}},
		PP:   true,
		Ops:  []Op{{K: "params"}, {K: "row", Row: []Val{{G: "string", S: "echo"}}}, {K: "complete", Tag: "SELECT 1"}},
	}}}
}

func (rt *Runtime) programFor(query string) *Program {
	if p, ok := rt.C.Programs[ProgramKey(query)]; ok && p != nil {
		return p
	}
	if rt.fallback != nil {
		return rt.fallback
	}
	return FallbackProgram()
}

func (rt *Runtime) parseFn(ctx context.Context, query string) (wire.PreparedStatements, error) {
	c := rt.connOf(ctx)
	rt.K.Yield(c.task, "cb.parse")
	// (a schedule point of its own when the callback hands its result back to
	// the library: what the library does with it before its next
	// synchronisation can then interleave with other connections' callbacks)
	defer rt.K.Yield(c.task, "cb.parse.ret")
	c.rec("parse", query)
	c.retain("query", query)
	c.retainMap("client parameters as the first callback of the session received them", wire.ClientParameters(ctx))
	c.checkRetained("parse")
	rt.inspectCtx(c, ctx, "parse")
	c.cmdCtx = ctx
	prog := rt.programFor(query)
	if prog.ParseErr != nil && !(prog.Partial && len(prog.Stmts) > 0) {
		c.rec("parse-ret", "err")
		return nil, c.buildErr(prog.ParseErr)
	}
	key := ProgramKey(query)
	if rt.C.Server.MemoParser && prog.ParseErr == nil {
		// an application that keeps what it has parsed: the same query text gets
		// the very same PreparedStatements value again (per connection)
		if out, ok := c.parsed[query]; ok {
			c.rec("parse-ret", fmt.Sprintf("%d", len(out)))
			return out, nil
		}
	}
	out := make(wire.PreparedStatements, 0, len(prog.Stmts))
	for i, sp := range prog.Stmts {
		sp := sp
		idx := i
		opts := []wire.PreparedOptionFn{}
		if sp.Cols != nil {
			opts = append(opts, wire.WithColumns(rt.columns(sp.Cols)))
		}
		if sp.PP {
			opts = append(opts, wire.WithParameters(wire.ParseParameters(query)))
		} else if sp.Params != nil {
			ps := make([]oid.Oid, len(sp.Params))
			for j, p := range sp.Params {
				ps[j] = oid.Oid(p)
			}
			opts = append(opts, wire.WithParameters(ps))
		}
		out = append(out, wire.NewStatement(func(ctx context.Context, w wire.DataWriter, params []wire.Parameter) error {
			return rt.runStmt(ctx, key, idx, sp, w, params)
		}, opts...))
	}
	if prog.ParseErr != nil {
		c.rec("parse-ret", "err")
		return out, c.buildErr(prog.ParseErr)
	}
	if rt.C.Server.MemoParser {
		if c.parsed == nil {
			c.parsed = map[string]wire.PreparedStatements{}
		}
		c.parsed[query] = out
	}
	c.rec("parse-ret", fmt.Sprintf("%d", len(out)))
	return out, nil
}

func errClass(err error) string {
	switch {
	case err == nil:
		return "ok"
	case err == io.EOF:
		return "eof"
	}
	return "err"
}

// flipCtx is a context that turns cancelled at its n-th Err() call (deterministic
// stand-in for a deadline that runs out at a particular moment).
type flipCtx struct {
	context.Context
	left int
	done chan struct{}
}

func newFlipCtx(parent context.Context, n int) *flipCtx {
	return &flipCtx{Context: parent, left: n, done: make(chan struct{})}
}

func (f *flipCtx) flipped() bool { return f.left < 0 }

func (f *flipCtx) Err() error {
	if f.left > 0 {
		f.left--
		return f.Context.Err()
	}
	if f.left == 0 {
		f.left = -1
		close(f.done)
	}
	return context.Canceled
}

func (f *flipCtx) Done() <-chan struct{} { return f.done }

func cloneBytes(b []byte) []byte {
	if b == nil {
		return nil
	}
	return append([]byte{}, b...)
}

func hexs(b []byte) string {
	if b == nil {
		return "nil"
	}
	return "x" + hex.EncodeToString(b)
}

func (rt *Runtime) runStmt(ctx context.Context, key string, idx int, sp *StmtProg, w wire.DataWriter, params []wire.Parameter) (ret error) {
	c := rt.connOf(ctx)
	rt.K.Yield(c.task, "cb.stmt")
	defer rt.K.Yield(c.task, "cb.stmt.ret")
	c.rec("stmt", fmt.Sprintf("%s#%d nparams=%d", key, idx, len(params)))
	c.checkRetained("stmt")
	rt.inspectCtx(c, ctx, "stmt")
	c.inHandler++
	panicking := false
	defer func() {
		c.inHandler--
		if panicking {
			c.rec("stmt-end", fmt.Sprintf("%s#%d panic", key, idx))
		} else {
			c.rec("stmt-end", fmt.Sprintf("%s#%d %s", key, idx, errClass(ret)))
		}
		c.cmdCtx = ctx
	}()
	var cr *wire.CopyReader
	var last error
	var reuseSlice []any
	var reuseVars []reflect.Value
	for oi, op := range sp.Ops {
		switch op.K {
		case "row":
			vals := make([]any, len(op.Row))
			for i, v := range op.Row {
				vals[i] = v.Go()
			}
			if op.CancelIn > 0 && op.CancelIn <= len(vals) {
				if str, ok := vals[op.CancelIn-1].(string); ok {
					vals[op.CancelIn-1] = cancellingText{s: str, fn: func() {
						if c.cancelSession != nil {
							c.cancelSession()
						}
					}}
				}
			}
			if op.YieldIn > 0 && op.YieldIn <= len(vals) {
				if str, ok := vals[op.YieldIn-1].(string); ok {
					vals[op.YieldIn-1] = cancellingText{s: str, fn: func() { rt.K.Yield(c.task, "op.encode") }}
				}
			}
			if op.Reuse {
				if len(reuseSlice) != len(vals) {
					reuseSlice = vals
					reuseVars = make([]reflect.Value, len(vals))
					for i := range vals {
						reuseVars[i] = reflect.ValueOf(vals[i])
					}
				} else {
					for i := range vals {
						nv := reflect.ValueOf(vals[i])
						if reuseVars[i].IsValid() && nv.IsValid() && reuseVars[i].Kind() == reflect.Ptr && nv.Type() == reuseVars[i].Type() && !nv.IsNil() && !reuseVars[i].IsNil() {
							// assign the handler's variable; the slice itself is not touched
							reuseVars[i].Elem().Set(nv.Elem())
						} else {
							reuseSlice[i] = vals[i]
							reuseVars[i] = nv
						}
					}
				}
				vals = reuseSlice
			}
			// (N > 1: the same row N times - long results)
			for n := 0; n == 0 || n < op.N; n++ {
				rt.K.Yield(c.task, "op.row")
				err := w.Row(vals)
				last = err
				c.rec("op", fmt.Sprintf("%d row %s", oi, errClass(err)))
			}
		case "written":
			c.rec("op", fmt.Sprintf("%d written %d", oi, w.Written()))
		case "complete":
			err := w.Complete(op.Tag)
			last = err
			c.rec("op", fmt.Sprintf("%d complete %s", oi, errClass(err)))
		case "empty":
			err := w.Empty()
			last = err
			c.rec("op", fmt.Sprintf("%d empty %s", oi, errClass(err)))
		case "copyin":
			var err error
			cr, err = w.CopyIn(wire.FormatCode(op.Fmt))
			last = err
			c.rec("op", fmt.Sprintf("%d copyin %s", oi, errClass(err)))
		case "copyread", "copyall":
			if cr == nil {
				c.rec("op", fmt.Sprintf("%d %s nocopy", oi, op.K))
				continue
			}
			for n := 0; op.K == "copyall" || n < op.N; n++ {
				rt.K.Yield(c.task, "op.copyread")
				err := cr.Read()
				last = err
				if err != nil {
					c.rec("op", fmt.Sprintf("%d copyread %s", oi, errClass(err)))
					break
				}
				c.rec("op", fmt.Sprintf("%d copyread data %s", oi, hexs(cloneBytes(cr.Msg))))
				if n > 100000 {
					break
				}
			}
		case "binrows":
			if cr == nil {
				c.rec("op", fmt.Sprintf("%d binrows nocopy", oi))
				continue
			}
			br, err := wire.NewBinaryColumnReader(ctx, cr)
			if err != nil {
				last = err
				c.rec("op", fmt.Sprintf("%d binrows-new err", oi))
				continue
			}
			for n := 0; n < 100000 || op.Quiet; n++ {
				var row []any
				var err error
				if op.Flip > 0 {
					fc := newFlipCtx(ctx, op.Flip)
					row, err = br.Read(fc)
					if err != nil && errors.Is(err, context.Canceled) && fc.flipped() {
						row, err = br.Read(ctx)
					}
				} else {
					row, err = br.Read(ctx)
				}
				last = err
				if err != nil {
					if op.Quiet {
						c.rec("op", fmt.Sprintf("%d binrows quiet: %d rows then %s", oi, n, errClass(err)))
					} else {
						c.rec("op", fmt.Sprintf("%d binrow %s", oi, errClass(err)))
					}
					break
				}
				if !op.Quiet {
					c.rec("op", fmt.Sprintf("%d binrow row %s", oi, canonRow(row, sp.Cols)))
				} else if c.cc.MeasureLive && n%10000 == 9999 {
					// what the reader holds in the middle of a long stream
					st, hp := readLive()
					c.LiveStack = append(c.LiveStack, st)
					c.LiveHeap = append(c.LiveHeap, hp)
				}
			}
		case "params":
			var sb strings.Builder
			for i, p := range params {
				fmt.Fprintf(&sb, " [%d f=%d v=%s]", i, p.Format(), hexs(cloneBytes(p.Value())))
				if p.Value() != nil && len(p.Value()) == 0 {
					sb.WriteString("(empty)")
				}
			}
			c.rec("op", fmt.Sprintf("%d params n=%d%s", oi, len(params), sb.String()))
		case "scan":
			var sb strings.Builder
			for i, p := range params {
				var o uint32
				if i < len(op.OIDs) {
					o = op.OIDs[i]
				} else if i < len(sp.Params) {
					o = sp.Params[i]
				}
				v, err := p.Scan(o)
				if err != nil {
					fmt.Fprintf(&sb, " [%d err]", i)
					continue
				}
				cv, ok := CanonOfGo(v)
				if !ok {
					fmt.Fprintf(&sb, " [%d ?%T]", i, v)
					continue
				}
				if cv.Kind == "ts" && pgwire.KindOf(o) == "date" {
					cv = pgwire.Value{Kind: "date", I: cv.I / 86400000000}
				}
				fmt.Fprintf(&sb, " [%d %s]", i, cv.String())
			}
			c.rec("op", fmt.Sprintf("%d scan%s", oi, sb.String()))
			// a handler may ask for the same parameter again as another type (try
			// int4, fall back to text): every Scan goes through the decoder of the
			// type it names, so it answers like a fresh parameter with these bytes
			for i, p := range params {
				var first uint32
				if i < len(op.OIDs) {
					first = op.OIDs[i]
				} else if i < len(sp.Params) {
					first = sp.Params[i]
				}
				alt := uint32(pgwire.OIDText)
				if first == pgwire.OIDText || first == pgwire.OIDVarchar {
					alt = pgwire.OIDInt4
				}
				got, gerr := p.Scan(alt)
				want, werr := wire.NewParameter(wire.TypeMap(ctx), p.Format(), p.Value()).Scan(alt)
				gs, ws := fmt.Sprintf("%T %#v err=%v", got, got, gerr != nil), fmt.Sprintf("%T %#v err=%v", want, want, werr != nil)
				if gs != ws {
					c.Incons = append(c.Incons, fmt.Sprintf("parameter %d (format %d, value %q) scanned as oid %d and then as oid %d: the second Scan gives %s, a fresh parameter with the same bytes gives %s", i, p.Format(), trunc(string(p.Value()), 40), first, alt, trunc(gs, 80), trunc(ws, 80)))
					break
				}
			}
		case "retain":
			for i, p := range params {
				c.retainBytes(fmt.Sprintf("param%d", i), p.Value())
			}
			c.retainParams(params)
			cp := wire.ClientParameters(ctx)
			for k, v := range cp {
				c.retain("cparam:"+string(k), v)
				c.retain("cparamkey:"+string(k), string(k))
			}
		case "ctx":
			rt.inspectCtx(c, ctx, "op")
		case "cancel":
			// (a handler that lets time pass after the cancellation announces its
			// sleep before it cancels: whoever the cancellation wakes up already
			// sees that somebody is asleep on the simulated clock)
			d := time.Duration(op.Ms) * time.Millisecond
			if d > 0 {
				simSleepUntil.Store(time.Now().Add(d).UnixNano())
				simSleepers.Add(1)
			}
			if c.cancelSession != nil {
				c.cancelSession()
			}
			c.rec("op", fmt.Sprintf("%d cancel", oi))
			if d > 0 {
				time.Sleep(d)
				simSleepers.Add(-1)
			}
		case "panic":
			// a statement function that panics (generated only for statements that
			// are executed through the extended protocol, where the library
			// documents - by recovering - that this is a failed Execute)
			c.rec("op", fmt.Sprintf("%d panic", oi))
			panicking = true
			panic("verif: the statement function panics")
		case "sleep":
			bubbleSleep(time.Duration(op.Ms) * time.Millisecond)
			c.rec("op", fmt.Sprintf("%d sleep", oi))
		case "yield":
			rt.K.Yield(c.task, "op.yield")
			c.rec("op", fmt.Sprintf("%d yield", oi))
		case "return":
			return c.buildErr(op.Err)
		case "retlast":
			return last
		case "finishcopy":
			// the idiomatic end of a COPY handler: complete on end-of-stream,
			// otherwise report the error that ended the loop
			if last == io.EOF {
				err := w.Complete(op.Tag)
				c.rec("op", fmt.Sprintf("%d complete %s", oi, errClass(err)))
				return err
			}
			if last == nil {
				return errors.New("copy handler stopped without reaching the end of the stream")
			}
			return last
		default:
			panic("unknown op " + op.K)
		}
	}
	return nil
}

// cancellingText is a text value whose encoding cancels the session context.
type cancellingText struct {
	s  string
	fn func()
}

func (v cancellingText) TextValue() (pgtype.Text, error) {
	v.fn()
	return pgtype.Text{String: v.s, Valid: true}, nil
}

func canonRow(row []any, cols []ColSpec) string {
	var sb strings.Builder
	fmt.Fprintf(&sb, "n=%d", len(row))
	for i, v := range row {
		cv, ok := CanonOfGo(v)
		if !ok {
			fmt.Fprintf(&sb, " [?%T %v]", v, v)
			continue
		}
		if cv.Kind == "ts" && i < len(cols) && pgwire.KindOf(cols[i].OID) == "date" {
			cv = pgwire.Value{Kind: "date", I: cv.I / 86400000000}
		}
		fmt.Fprintf(&sb, " [%s]", cv.String())
	}
	return sb.String()
}

package harness

import (
	"crypto/sha256"
	"encoding/hex"
	"encoding/json"

	"verif/pgwire"
)

// Case is one explicit, serialisable simulated execution: server
// configuration, handler programs, per-connection client scripts with their
// segmentation and fault plans, and (engine E2) the schedule. The engines are
// pure functions of a Case and the code under test.
type Case struct {
	Prop     string              `json:"prop"`
	Variant  string              `json:"variant,omitempty"`
	Sub      uint64              `json:"sub"`
	Server   ServerCfg           `json:"server"`
	Programs map[string]*Program `json:"programs,omitempty"`
	Conns    []ConnCase          `json:"conns"`
	Sched    *SchedCase          `json:"sched,omitempty"`
	// Expect carries generator-side knowledge an oracle needs that is not
	// derivable from the script (property specific, documented per property).
	Expect map[string]any `json:"expect,omitempty"`
}

// ServerCfg selects the server options for a run.
type ServerCfg struct {
	Limit       int               `json:"limit,omitempty"` // MessageBufferSize; 0 = option not used
	Auth        string            `json:"auth,omitempty"`  // "" | cleartext | custom-fail | passthrough
	Validator   []AuthEntry       `json:"validator,omitempty"`
	DefaultAuth string            `json:"defauth,omitempty"` // outcome when no entry matches: accept|reject|fail (default reject)
	Params      map[string]string `json:"params,omitempty"`
	HasParams   bool              `json:"hasparams,omitempty"` // configure GlobalParameters even when empty
	// Params2: a second GlobalParameters option follows the first one. It repeats
	// every pair of Params and adds more, so that what is announced does not
	// depend on whether a later option replaces or extends an earlier one.
	Params2 map[string]string `json:"params2,omitempty"`
	Version string            `json:"version,omitempty"`
	// ExtendReal: the ExtendTypes options really change the type map (text and
	// varchar handled by the bytea codec, timestamp by the timestamptz codec,
	// numeric by the text codec, a new type under OID 90001) instead of being
	// no-ops. Used by decoy cases whose own session touches none of these types:
	// what one server registers must never show on another server's connections.
	ExtendReal bool `json:"extend_real,omitempty"`
	// MemoParser: the parser keeps what it has parsed and hands the same
	// PreparedStatements value out again for the same query text (per connection)
	MemoParser bool `json:"memo_parser,omitempty"`
	// ValCtxDone: whenever the validator does not accept, the context it returns
	// has already ended (the common `ctx, cancel := context.WithTimeout(...);
	// defer cancel()` shape of a validator that looks the account up remotely)
	ValCtxDone bool `json:"val_ctx_done,omitempty"`
	// Sibling ("before" | "after"): a second Server is built in the same process
	// from the very same option values (with one more middleware of its own in
	// front), before or after the server under test, and never serves: option
	// values are plain values and may be reused; configuring one server never
	// changes another
	Sibling string `json:"sibling,omitempty"`
	// SameAddr: every connection's RemoteAddr() prints the same text (peers on a
	// unix-domain socket, an in-memory listener, a local proxy)
	SameAddr bool   `json:"same_addr,omitempty"`
	TLS      string `json:"tls,omitempty"` // "" | empty | certs
	// AuthFirst: an earlier SessionAuthStrategy option ("accept-all": a strategy
	// that lets everybody in) which the option configured by Auth follows and
	// - last option wins - replaces
	AuthFirst string `json:"auth_first,omitempty"`
	// CloseHook: a CloseConn hook is configured (the library never documents
	// when it runs; it is a callback like any other)
	CloseHook bool `json:"close_hook,omitempty"`
	// ExtendTypes: that many ExtendTypes options are given (each registers
	// nothing new: what matters is how the server stores and applies them)
	ExtendTypes int `json:"extend_types,omitempty"`
	// UserCaches: statement and portal caches are supplied through the
	// Statements / Portals options (user types embedding the default caches)
	UserCaches bool `json:"user_caches,omitempty"`
	// TLSVia: how the configuration reaches the server: "" = the TLSConfig option,
	// "field" = the exported Server.TLSConfig field assigned after NewServer,
	// "late-cert" = the option with a config whose certificate is added afterwards
	TLSVia string `json:"tls_via,omitempty"`
	// TLSCertValidity: "" | "expired" | "future": the configured certificate is
	// outside its validity period at the time the TLS stack believes it is
	// (nobody verifies it: a configured certificate is a configured certificate)
	TLSCertValidity string `json:"tls_cert_validity,omitempty"`
	// TLSClientAuth: "" | "request" (tls.RequestClientCert) | "require-any"
	// (tls.RequireAnyClientCert): client certificates are asked for but never verified
	TLSClientAuth string   `json:"tls_client_auth,omitempty"`
	MW            []MWSpec `json:"mw,omitempty"`
	Term          string   `json:"term,omitempty"` // "" | ok | fail
	NilParse      bool     `json:"nilparse,omitempty"`
}

// AuthEntry scripts the password validator: outcome for one credential triple.
type AuthEntry struct {
	DB   string `json:"db"`
	User string `json:"user"`
	PW   string `json:"pw"`
	Out  string `json:"out"` // accept | reject | fail | failtrue
	// Next, when set, is the outcome from the second time this entry matches on
	// (a password that was revoked after an earlier successful login)
	Next string `json:"next,omitempty"`
	// SleepMs: the validator takes this long (simulated time) to reach its
	// verdict for these credentials - a slow directory lookup
	SleepMs int `json:"sleep_ms,omitempty"`
}

// MWSpec is one session middleware.
type MWSpec struct {
	Fail bool `json:"fail,omitempty"`
	// Transient: the failure is a timeout (an error whose Timeout() reports
	// true, as a middleware that consults a remote service would return)
	Transient bool `json:"transient,omitempty"`
	// Cancel: the middleware derives a cancellable session context; a statement
	// program's "cancel" op cancels it (a session time limit that expires while
	// a statement runs)
	Cancel bool `json:"cancel,omitempty"`
	// Done: the middleware succeeds but the context it returns has already
	// ended (it derived a context with a limit of its own that ran out, or
	// cancelled it on its way out)
	Done bool `json:"done,omitempty"`
}

// ConnCase is the client side of one connection.
type ConnCase struct {
	Steps   []Step     `json:"steps"`
	Cuts    []int      `json:"cuts,omitempty"`   // i-th read returns at most Cuts[i mod len] bytes; empty = unlimited
	Faults  []Fault    `json:"faults,omitempty"` // transport fault plan
	NoEOF   bool       `json:"noeof,omitempty"`  // after the last step the peer stays silent instead of closing (E2 only)
	TLS     *TLSClient `json:"tlsclient,omitempty"`
	Measure bool       `json:"measure,omitempty"` // sample allocation counters at quiescence points
	// MeasureLive samples, at quiescence points, the memory in use by goroutine
	// stacks and (after a forced collection) by live heap objects: what a long
	// run of small messages may make grow
	MeasureLive bool `json:"measure_live,omitempty"`
}

// Step is a flight of client messages delivered together; the next step is
// fed only when the server has consumed everything and is waiting for input
// (quiescence).
type Step struct {
	Msgs []pgwire.FMsg `json:"msgs"`
	// IdleMs is simulated time (milliseconds of the bubble's fake clock) the
	// client lets pass before it sends this step.
	IdleMs int `json:"idle_ms,omitempty"`
	// HoldBack > 0: only the first HoldBack bytes of the step's last message are
	// delivered with this step; the rest travels at the head of the next step.
	HoldBack int `json:"holdback,omitempty"`
}

// CompletedBefore returns, for every step index i (0..len), how many client
// messages have been delivered completely once the steps before i were fed.
func (cc *ConnCase) CompletedBefore() []int {
	out := make([]int, len(cc.Steps)+1)
	carry := 0
	for i, st := range cc.Steps {
		n := len(st.Msgs) + carry
		carry = 0
		if st.HoldBack > 0 && len(st.Msgs) > 0 && i+1 < len(cc.Steps) && cc.heldBack(i) {
			n--
			carry = 1
		}
		out[i+1] = out[i] + n
	}
	return out
}

// heldBack reports whether step i's HoldBack really leaves a tail of its last
// message for the next step (a HoldBack at or beyond the message's encoded
// length delivers all of it; a pattern chunk is cut at a multiple of its period).
func (cc *ConnCase) heldBack(i int) bool {
	st := cc.Steps[i]
	_, tail := splitChunks(st.Msgs[len(st.Msgs)-1].Encode(), int64(st.HoldBack))
	var n int64
	for _, ch := range tail {
		n += ch.Len()
	}
	return n > 0
}

// Fault kinds: read-err (At = index of the Read call), eof-at-byte (At = input
// bytes delivered before the peer vanishes), write-err (At = index of the Write
// call, Bytes accepted before failing), write-err-transient (that one write
// fails after Bytes bytes reached the peer, later ones succeed), empty-read (At = Read call that returns 0,nil),
// write-stall (E2: the At-th Write never completes: the peer stopped reading),
// read-timeout (the At-th Read reports a timeout and delivers nothing; no byte is
// lost and later reads succeed),
// eof-with-data (At -1: the Read that delivers the peer's last bytes also reports io.EOF),
// write-cancel (the session context derived by a Cancel middleware is cancelled
// at the beginning of the At-th Write),
// close-err (the server's Close of the connection reports an error; the
// connection is closed all the same),
// write-slow (the peer stalls for Ms simulated milliseconds inside the At-th
// Write and then resumes; if the server armed a write deadline that expires
// meanwhile, Bytes bytes are accepted and the write fails with a timeout).
type Fault struct {
	Kind  string `json:"kind"`
	At    int    `json:"at"`
	Bytes int    `json:"bytes,omitempty"`
	Ms    int    `json:"ms,omitempty"` // write-slow: how long the peer stalls (simulated milliseconds)
	// Timeout (write-err-transient, read-timeout): the error reports Timeout() == true
	Timeout bool `json:"timeout,omitempty"`
}

// TLSClient describes a real crypto/tls client goroutine (engine E2).
type TLSClient struct {
	Pre      []byte `json:"pre,omitempty"`      // plaintext stuffed right behind the SSLRequest
	PreSplit bool   `json:"presplit,omitempty"` // stuffed bytes go out in a separate segment
	MinVer   uint16 `json:"minver,omitempty"`
	MaxVer   uint16 `json:"maxver,omitempty"`
	AbortAt  int    `json:"abortat,omitempty"` // >0: peer closes after sending that many handshake bytes
	SSLTwice bool   `json:"ssltwice,omitempty"`
	// StepBytes is filled in by the check from the plaintext reference run: how
	// many plaintext bytes the server sends in reply to each step.
	StepBytes []int `json:"stepbytes,omitempty"`
	// StayOpen: the client also reads the reply to its last step and then keeps
	// the connection open without sending anything more (an idle session)
	StayOpen bool `json:"stayopen,omitempty"`
	// Cert: the client presents a (self-signed, unverifiable) certificate
	Cert bool `json:"cert,omitempty"`
	// SSLBody: bytes carried inside the SSLRequest packet behind the request code
	SSLBody []byte `json:"sslbody,omitempty"`
}

// SchedCase is the E2 part of a case.
type SchedCase struct {
	Strategy string   `json:"strategy,omitempty"` // uniform | pct | hold | replay
	Depth    int      `json:"depth,omitempty"`    // pct priority change points
	Holds    []Hold   `json:"holds,omitempty"`
	Schedule []int32  `json:"schedule,omitempty"` // replay vector (decision k = ready[schedule[k] mod n])
	Closers  []Closer `json:"closers,omitempty"`
	MaxSteps int      `json:"maxsteps,omitempty"`
	// CloseFirst: one Close call runs to completion before Serve is called at
	// all (`go srv.Serve(l)` overtaken by an early Close)
	CloseFirst bool `json:"close_first,omitempty"`
	// AcceptErr: once every connection of the case has been accepted, the
	// listener's next Accept fails with an error that is not net.ErrClosed (the
	// listener broke: EMFILE, a timeout, a closed descriptor)
	AcceptErr bool `json:"accept_err,omitempty"`
	// ListenerCloseErr: closing the listener works but reports an error (a
	// wrapping listener, a listener the application closed itself)
	ListenerCloseErr bool `json:"listener_close_err,omitempty"`
	// Listeners > 1: Serve is called once per listener on the same Server
	Listeners int `json:"listeners,omitempty"`
}

// Hold parks Task at Point until Until has passed UntilPoint (or cannot run).
type Hold struct {
	Task       int    `json:"task"`
	Point      string `json:"point"`
	Until      int    `json:"until"`
	UntilPoint string `json:"untilpoint"`
}

// Closer is a goroutine calling Server.Close() Calls times in a row.
type Closer struct {
	Calls int `json:"calls"`
}

// Digest is a stable hash of the case content (schedule excluded so that the
// same workload under different schedules can be grouped).
func (c *Case) Digest() string {
	cp := *c
	cp.Sub = 0
	b, _ := json.Marshal(&cp)
	h := sha256.Sum256(b)
	return hex.EncodeToString(h[:8])
}

// JSON renders the case.
func (c *Case) JSON() []byte {
	b, _ := json.Marshal(c)
	return b
}

// Clone deep-copies a case through JSON.
func (c *Case) Clone() *Case {
	var out Case
	if err := json.Unmarshal(c.JSON(), &out); err != nil {
		panic(err)
	}
	return &out
}

// reencode converts a value that went through a JSON round trip (map/slice of
// interface{}) back into a typed value.
func reencode(in any, out any) {
	b, err := json.Marshal(in)
	if err != nil {
		return
	}
	json.Unmarshal(b, out) //nolint:errcheck
}

func jsonUnmarshalB64(s string, out *[]byte) error {
	return json.Unmarshal([]byte(`"`+s+`"`), out)
}

package harness

import (
	"fmt"
	"regexp"
	"sort"
	"strings"

	"verif/pgwire"
)

// ctxFields parses a recorded "ctx" event.
type ctxFields struct {
	where, mw, client, server, remote, typemap, user, live, prevdone string
}

func parseCtx(s string) ctxFields {
	var f ctxFields
	sp := strings.IndexByte(s, ' ')
	if sp < 0 {
		return f
	}
	f.where = s[:sp]
	rest := s[sp+1:]
	grab := func(key, end string) string {
		i := strings.Index(rest, key)
		if i < 0 {
			return "?"
		}
		v := rest[i+len(key):]
		j := strings.Index(v, end)
		if j < 0 {
			return v
		}
		return v[:j]
	}
	f.mw = grab("mw=[", "]")
	f.client = grab("client={", "} server=")
	f.server = grab("server={", "} remote=")
	f.remote = grab("remote=", " ")
	f.typemap = grab("typemap=", " ")
	f.user = grab("user=", " live=")
	f.live = grab("live=", " ")
	f.prevdone = grab("prevdone=", " ")
	return f
}

var superRe = regexp.MustCompile(`"is_superuser"="[^"]*";`)

// normSuper hides the value of is_superuser (named by the property, value not fixed).
func normSuper(s string) string { return superRe.ReplaceAllString(s, `"is_superuser"=*;`) }

func renderParams(m map[string]string) string {
	keys := make([]string, 0, len(m))
	for k := range m {
		keys = append(keys, k)
	}
	sort.Strings(keys)
	var sb strings.Builder
	for _, k := range keys {
		fmt.Fprintf(&sb, "%q=%q;", k, m[k])
	}
	return sb.String()
}

// startupParams returns the client parameters a startup packet carries (a map:
// the last duplicate wins; an empty key terminates the list).
func startupParams(m *pgwire.FMsg) map[string]string {
	out := map[string]string{}
	for _, kv := range m.KV {
		if kv[0] == "" {
			break
		}
		out[kv[0]] = kv[1]
	}
	return out
}

// expectedServerParams is the set the startup reply must announce.
func expectedServerParams(cfg *ServerCfg, user string) map[string]string {
	out := map[string]string{}
	for k, v := range cfg.Params {
		out[k] = v
	}
	for k, v := range cfg.Params2 {
		out[k] = v
	}
	out["server_encoding"] = "UTF8"
	out["client_encoding"] = "UTF8"
	out["is_superuser"] = "off"
	out["session_authorization"] = user
	if cfg.Version != "" {
		out["server_version"] = cfg.Version
	}
	return out
}

// firstStartup returns the startup packet that opens the session (after an
// optional SSLRequest).
func firstStartup(cc *ConnCase) *pgwire.FMsg {
	msgs := cc.FlatMsgs()
	for i := range msgs {
		if msgs[i].K == "startup" {
			return &msgs[i]
		}
		if msgs[i].K != "ssl" {
			return nil
		}
	}
	return nil
}

// lifecycleOracle checks the context events of one connection (C12 and C19).
func lifecycleOracle(prop string, c *Case, conn int, cs *connState, t *Transcript) []Violation {
	var viol []Violation
	add := func(rule, detail string) {
		viol = append(viol, Violation{Prop: prop, Rule: rule, Sig: rule, Detail: fmt.Sprintf("conn %d: %s", conn, detail)})
	}
	su := firstStartup(cs.cc)
	if su == nil || !isPlain(su) || su.NoTerm || len(su.Tail) > 0 || (su.Proto != 0 && su.Proto != pgwire.ProtoV3) {
		return nil
	}
	cparams := startupParams(su)
	wantClient := renderParams(cparams)
	user := cparams["user"]
	wantServer := normSuper(renderParams(expectedServerParams(&c.Server, user)))
	nmw := len(c.Server.MW)
	allMW := make([]string, nmw)
	for i := range allMW {
		allMW[i] = fmt.Sprint(i)
	}
	// position of AuthenticationOk and first ReadyForQuery in the write sequence
	var authOkSeq, firstZSeq int64 = -1, -1
	{
		// map transcript message offsets to write events (offsets in the raw
		// output: the one-byte answers to SSLRequests come first and are writes too)
		off := 0
		idx := 0
		for _, e := range cs.Events {
			if e.K != "write" {
				continue
			}
			var n int
			if _, err := fmt.Sscanf(e.S, "%d", &n); err != nil {
				continue
			}
			for idx < len(t.Msgs) && t.Msgs[idx].Off+t.Base < off+n {
				m := t.Msgs[idx]
				if m.Type == 'R' && m.AuthCode == 0 && authOkSeq < 0 {
					authOkSeq = e.Seq
				}
				if m.Type == 'Z' && firstZSeq < 0 {
					firstZSeq = e.Seq
				}
				idx++
			}
			off += n
		}
	}
	mwCount := map[string]int{}
	mwOrder := []string{}
	terminates := 0
	var closeSeq int64 = cs.CloseSeq
	for _, e := range cs.Events {
		switch e.K {
		case "mw":
			id := strings.Fields(e.S)[0]
			mwCount[id]++
			mwOrder = append(mwOrder, id)
			if authOkSeq < 0 || e.Seq < authOkSeq {
				add("middleware-before-auth", fmt.Sprintf("session middleware %s ran before AuthenticationOk was sent", id))
			}
			if firstZSeq >= 0 && e.Seq > firstZSeq {
				add("middleware-after-ready", fmt.Sprintf("session middleware %s ran after the first ReadyForQuery", id))
			}
		case "terminate":
			terminates++
		case "ctx":
			f := parseCtx(e.S)
			switch f.where {
			case "mw":
				// middleware i sees 0..i-1 (checked through the "mw" event's sees=)
				// (what a middleware itself sees besides its predecessors' values is
				// not fixed by the property; only the resulting context handed to
				// parser and statement calls is judged)
			case "parse", "stmt":
				if f.mw != strings.Join(allMW, ",") {
					add("context-propagation", fmt.Sprintf("%s callback context carries middleware values [%s], want [%s]", f.where, f.mw, strings.Join(allMW, ",")))
				}
				if f.client != wantClient {
					add("client-parameters", fmt.Sprintf("%s callback sees client parameters {%s}, the startup packet carried {%s}", f.where, f.client, wantClient))
				}
				if normSuper(f.server) != wantServer {
					add("server-parameters", fmt.Sprintf("%s callback sees server parameters {%s}, want {%s}", f.where, f.server, wantServer))
				}
				if f.remote != fmt.Sprintf("sim:%d", cs.ID) {
					add("remote-address", fmt.Sprintf("%s callback sees remote address %s, want sim:%d", f.where, f.remote, cs.ID))
				}
				if f.typemap != "true" {
					add("type-map", f.where+" callback context carries no type map")
				}
				if f.user != fmt.Sprintf("%q", user) {
					add("authenticated-user", fmt.Sprintf("%s callback sees user %s, want %q", f.where, f.user, user))
				}
				if f.live != "true" {
					add("context-cancelled-early", f.where+" callback context is already cancelled while the command runs")
				}
				if f.prevdone == "false" {
					add("context-not-cancelled", "the context of the previous command is still live when the next command starts")
				}
			case "op":
				// the handler looks at its context again in the middle of its work
				if f.live != "true" {
					add("context-cancelled-early", "the context of a statement callback was cancelled while the command was still running")
				}
			}
			if closeSeq > 0 && e.Seq > closeSeq && f.where != "" {
				add("callback-after-close", "a callback ran after the server closed the connection")
			}
		}
	}
	if cs.EndCtx == "live" {
		add("context-not-cancelled", "the connection has ended but the context of its last command was never cancelled")
	}
	for id, n := range mwCount {
		if n != 1 {
			add("middleware-not-once", fmt.Sprintf("session middleware %s ran %d times on one connection", id, n))
		}
	}
	for i := 1; i < len(mwOrder); i++ {
		if mwOrder[i-1] >= mwOrder[i] {
			add("middleware-order", fmt.Sprintf("session middlewares ran in order %v, want registration order", mwOrder))
			break
		}
	}
	if terminates > 1 {
		add("terminate-hook-not-once", fmt.Sprintf("terminate hook ran %d times", terminates))
	}
	return viol
}

// startupBlockOracle checks the multiset of ParameterStatus messages of an
// accepted connection (C12).
func startupBlockOracle(prop string, c *Case, conn int, cs *connState, t *Transcript) []Violation {
	su := firstStartup(cs.cc)
	if su == nil || !isPlain(su) || su.NoTerm || len(su.Tail) > 0 || (su.Proto != 0 && su.Proto != pgwire.ProtoV3) {
		return nil
	}
	kinds := pgwire.Kinds(t.Msgs)
	zi := strings.IndexByte(kinds, 'Z')
	if zi < 0 {
		return nil
	}
	want := expectedServerParams(&c.Server, startupParams(su)["user"])
	got := map[string][]string{}
	for _, m := range t.Msgs[:zi] {
		if m.Type == 'S' {
			got[m.Name] = append(got[m.Name], m.Value)
		}
	}
	var viol []Violation
	add := func(rule, detail string) {
		viol = append(viol, Violation{Prop: prop, Rule: rule, Sig: rule, Detail: fmt.Sprintf("conn %d: %s (startup reply %q)", conn, detail, kinds[:zi+1])})
	}
	for k, v := range want {
		vals := got[k]
		switch {
		case len(vals) == 0:
			add("parameter-status-missing", fmt.Sprintf("ParameterStatus %q is missing", k))
		case len(vals) > 1:
			add("parameter-status-duplicate", fmt.Sprintf("ParameterStatus %q sent %d times", k, len(vals)))
		case vals[0] != v && k != "is_superuser":
			// (the property names is_superuser but does not fix its value)
			add("parameter-status-value", fmt.Sprintf("ParameterStatus %q = %q, want %q", k, vals[0], v))
		}
	}
	for k := range got {
		if _, ok := want[k]; !ok {
			add("parameter-status-unexpected", fmt.Sprintf("unexpected ParameterStatus %q", k))
		}
	}
	// order: authentication exchange, parameters, then exactly one ReadyForQuery
	seenS := false
	for _, m := range t.Msgs[:zi] {
		switch m.Type {
		case 'R':
			if seenS {
				add("startup-order", "authentication message after ParameterStatus")
			}
		case 'S':
			seenS = true
		default:
			add("startup-order", fmt.Sprintf("unexpected %q before the first ReadyForQuery", m.Type))
		}
	}
	return viol
}

func genStartupKV(r *Rand, user, db string) [][2]string {
	kv := [][2]string{{"user", user}}
	if r.Chance(3, 4) {
		kv = append(kv, [2]string{"database", db})
	}
	for n := r.Intn(5); n > 0; n-- {
		switch r.Intn(6) {
		case 0:
			kv = append(kv, [2]string{"application_name", r.Str(r.Intn(10))})
		case 1:
			kv = append(kv, [2]string{r.Ident(r.Range(1, 8)), ""}) // empty value
		case 2:
			kv = append(kv, [2]string{"user", r.Ident(4)}) // duplicate: the last one wins
		case 3:
			kv = append(kv, [2]string{r.Ident(3), r.Str(r.Range(1, 40))})
		case 5:
			// protocol options: unknown ones, also repeated
			k := "_pq_." + r.Ident(r.Range(1, 4))
			kv = append(kv, [2]string{k, r.Ident(2)})
			if r.Bool() {
				kv = append(kv, [2]string{k, r.Ident(2)})
			}
		case 4:
			// (whatever the client asks for, the server announces UTF8; other
			// keys that are also server parameters are the client's own business)
			kv = append(kv, [2]string{"client_encoding", r.Pick("UTF8", "LATIN1", "SQL_ASCII", "utf8", "")})
			if r.Chance(1, 3) {
				kv = append(kv, [2]string{r.Pick("server_encoding", "server_version", "session_authorization", "is_superuser"), r.Pick("LATIN1", "1.0", "postgres", "on")})
			}
		}
		if r.Chance(1, 6) {
			// names are case-sensitive strings: they must come back exactly as sent
			kv = append(kv, [2]string{r.Pick("DateStyle", "TimeZone", "IntervalStyle", "X-"+r.Ident(3)), r.Str(r.Range(1, 6))})
			if r.Bool() {
				kv = append(kv, [2]string{r.Pick("datestyle", "timezone"), r.Ident(3)})
			}
		}
	}
	// shuffle
	for i := len(kv) - 1; i > 0; i-- {
		j := r.Intn(i + 1)
		kv[i], kv[j] = kv[j], kv[i]
	}
	return kv
}

func genGlobalParams(r *Rand, c *Case) {
	switch r.Intn(4) {
	case 0:
	case 1:
		c.Server.HasParams = true
	default:
		c.Server.Params = map[string]string{}
		for n := r.Range(1, 4); n > 0; n-- {
			c.Server.Params["x_"+r.Ident(r.Range(1, 6))] = r.Str(r.Intn(10))
		}
	}
	if r.Bool() {
		c.Server.Version = r.Pick("15.4", "9.6.0-harness", r.Str(r.Range(1, 6)))
	}
	if c.Server.Params != nil && r.Chance(1, 5) {
		// a configured key that collides with a value the server computes per
		// connection: the property fixes those values (UTF8, the connecting user,
		// the configured version), so the computed value must be what is announced
		for n := r.Range(1, 2); n > 0; n-- {
			c.Server.Params[r.Pick("session_authorization", "client_encoding", "server_encoding", "server_version")] = r.Pick("postgres", "LATIN1", "0.0")
		}
		// (without a configured Version, server_version is an ordinary configured
		// key and announced with its configured value)
	}
	if c.Server.Params != nil && r.Chance(1, 8) {
		c.Server.Params["server_version"] = r.Pick("14.1", "0.0.1-custom")
	}
	if c.Server.Params != nil && r.Chance(1, 6) {
		c.Server.Params2 = map[string]string{}
		for k, v := range c.Server.Params {
			c.Server.Params2[k] = v
		}
		for n := r.Range(1, 3); n > 0; n-- {
			c.Server.Params2["y_"+r.Ident(r.Range(1, 6))] = r.Str(r.Intn(10))
		}
	}
}

// genC19Close (engine E2): Server.Close is pinned inside a running statement
// callback, which then lets a moment of simulated time pass and looks at its
// context again: the command has not ended, so its context is live.
func genC19Close(r *Rand) *Case {
	c := &Case{Variant: "close-during-command", Server: ServerCfg{Limit: 4096, Term: r.Pick("", "ok")}, Programs: map[string]*Program{}}
	for n := r.Intn(3); n > 0; n-- {
		c.Server.MW = append(c.Server.MW, MWSpec{})
	}
	col := []ColSpec{{Name: "a", OID: pgwire.OIDText}}
	ops := []Op{{K: "yield"}, {K: "sleep", Ms: r.PickInt(1, 50, 6000)}, {K: "ctx"}, {K: "row", Row: []Val{{G: "string", S: "r"}}}, {K: "ctx"}, {K: "complete", Tag: "H"}}
	c.Programs["h"] = &Program{Stmts: []*StmtProg{{Cols: col, Ops: ops}}}
	msgs := []pgwire.FMsg{{K: "Q", S1: "h"}}
	if r.Bool() {
		msgs = []pgwire.FMsg{{K: "P", S1: "", S2: "h"}, {K: "B"}, {K: "E"}, {K: "S"}}
	}
	c.Conns = []ConnCase{{Steps: []Step{{Msgs: []pgwire.FMsg{startupMsg("u", "d")}}, {Msgs: msgs}}, NoEOF: true}}
	c.Sched = &SchedCase{Strategy: r.Pick("uniform", "pct"), Depth: 1, MaxSteps: 400000, Closers: []Closer{{Calls: 1}},
		Holds: []Hold{{Task: 2, Point: "closer.start", Until: 1, UntilPoint: "cb.stmt"}, {Task: 1, Point: "op.yield", Until: 2, UntilPoint: "close.signalled"}}}
	return c
}

// genCloseDuringStartup: Server.Close runs while a connection that was
// accepted before it is still in its startup (held inside the password
// validator, which accepts): the startup goes on as if nothing had happened -
// the middlewares run, in order, before the first ReadyForQuery, a refusing
// middleware ends the connection, and the reply is complete.
func genCloseDuringStartup(r *Rand, prop string) *Case {
	c := &Case{Variant: "close-during-startup", Server: ServerCfg{Limit: 4096, Auth: "cleartext", DefaultAuth: "reject"}, Programs: map[string]*Program{}}
	user, db, pw := r.Ident(4), r.Ident(3), "pw"+r.Ident(3)
	c.Server.Validator = []AuthEntry{{DB: db, User: user, PW: pw, Out: "accept"}}
	for n := r.Intn(4); n > 0; n-- {
		c.Server.MW = append(c.Server.MW, MWSpec{})
	}
	if len(c.Server.MW) > 0 && r.Chance(1, 3) {
		c.Server.MW[r.Intn(len(c.Server.MW))].Fail = true
	}
	if r.Bool() {
		genGlobalParams(r, c)
	}
	c.Conns = []ConnCase{{Steps: []Step{{Msgs: []pgwire.FMsg{startupMsg(user, db)}}, {Msgs: []pgwire.FMsg{{K: "p", S1: pw}}}}}}
	c.Sched = &SchedCase{Strategy: r.Pick("uniform", "pct"), Depth: 1, MaxSteps: 200000, Closers: []Closer{{Calls: r.Range(1, 2)}},
		Holds: []Hold{{Task: 2, Point: "closer.start", Until: 1, UntilPoint: "cb.validator"}, {Task: 1, Point: "cb.validator.ret", Until: 2, UntilPoint: r.Pick("close.signalled", "close.signalled", "closer.returned")}}}
	return c
}

func checkCloseDuringStartup(prop string, x *Exec, c *Case) ([]Violation, bool) {
	r := x.Run(c)
	c.Sched.Schedule = r.Schedule
	cs := r.Conns[0]
	t := ParseOut(cs)
	viol := GrammarViolation(prop, 0, t)
	if r.HoldsForced > 0 || r.Outcome != RunIdle || t.Grammar != nil || countKind(cs, "validator") == 0 {
		x.Probe(fmt.Sprintf("close_during_startup_inconclusive_forced=%d_outcome=%d_grammar=%v_validator=%d", r.HoldsForced, r.Outcome, t.Grammar != nil, countKind(cs, "validator")))
		return viol, false
	}
	x.Probe("close_during_startup")
	if mr := MatchConn(c, cs, t); !mr.OK {
		viol = append(viol, Violation{Prop: prop, Rule: mr.Rule, Sig: mr.Sig, Detail: "conn 0 (its startup was in progress when Server.Close ran): " + mr.Detail})
	}
	viol = append(viol, lifecycleOracle(prop, c, 0, cs, t)...)
	return viol, true
}

func checkC19Close(x *Exec, c *Case) ([]Violation, bool) {
	r := x.Run(c)
	c.Sched.Schedule = r.Schedule
	cs := r.Conns[0]
	t := ParseOut(cs)
	viol := GrammarViolation("C19", 0, t)
	if r.HoldsForced > 0 || r.Outcome != RunIdle || t.Grammar != nil || countKind(cs, "stmt") == 0 {
		x.Probe("close_during_command_inconclusive")
		return viol, false
	}
	x.Probe("close_during_command")
	viol = append(viol, lifecycleOracle("C19", c, 0, cs, t)...)
	return viol, true
}

// genC19Cancel: a middleware derives a cancellable session context; a
// statement cancels it once its result is complete (a session time limit that
// expires); the client runs one more query and then sends Terminate.
func genC19Cancel(r *Rand) *Case {
	c := &Case{Variant: "terminate-after-session-cancel", Server: ServerCfg{Limit: 4096, Term: r.Pick("ok", "ok", "fail")}, Programs: map[string]*Program{}}
	nmw := r.Range(1, 3)
	for i := 0; i < nmw; i++ {
		c.Server.MW = append(c.Server.MW, MWSpec{})
	}
	c.Server.MW[r.Intn(nmw)].Cancel = true
	col := []ColSpec{{Name: "a", OID: pgwire.OIDText}}
	c.Programs["c"] = &Program{Stmts: []*StmtProg{{Cols: col, Ops: []Op{{K: "complete", Tag: "C"}, {K: "cancel"}}}}}
	c.Programs["after"] = &Program{Stmts: []*StmtProg{{Cols: col, Ops: []Op{{K: "complete", Tag: "AFTER"}}}}}
	steps := []Step{{Msgs: []pgwire.FMsg{startupMsg("u", "d")}}, {Msgs: []pgwire.FMsg{{K: "Q", S1: "c"}}}, {Msgs: []pgwire.FMsg{{K: "Q", S1: "after"}}}, {Msgs: []pgwire.FMsg{{K: "X"}}}}
	if r.Bool() {
		steps[3].Msgs = append(steps[3].Msgs, pgwire.FMsg{K: "Q", S1: "after"})
	}
	c.Conns = []ConnCase{{Steps: steps, Cuts: genCuts(r)}}
	return c
}

// checkC19Cancel: whatever an implementation does with a session whose context
// has been cancelled - if it still answered the next query completely, it is
// serving that session, and the Terminate that follows invokes the hook once.
func checkC19Cancel(x *Exec, c *Case) ([]Violation, bool) {
	r := x.Run(c)
	cs := r.Conns[0]
	t := ParseOut(cs)
	viol := GrammarViolation("C19", 0, t)
	ready := 0
	for _, m := range t.Msgs {
		if m.Type == 'Z' {
			ready++
		}
	}
	sentX := false
	for _, m := range c.Conns[0].FlatMsgs() {
		if m.K == "X" {
			sentX = true
		}
	}
	if ready < 3 || !sentX || c.Server.Term == "" || len(c.Conns[0].Faults) > 0 {
		return viol, false
	}
	if n := countKind(cs, "terminate"); n != 1 {
		viol = append(viol, Violation{Prop: "C19", Rule: "terminate-hook-count", Sig: "terminate-hook-count",
			Detail: fmt.Sprintf("conn 0: the session answered a query after its context was cancelled, then received Terminate: the terminate hook ran %d times (server output %q)", n, pgwire.Kinds(t.Msgs))})
	}
	if cs.Closed == 0 {
		viol = append(viol, Violation{Prop: "C19", Rule: "terminate-not-closed", Sig: "terminate-not-closed", Detail: "conn 0: the connection was not closed after Terminate"})
	}
	return viol, true
}

func init() {
	// ------------------------------------------------------------------ C19
	register(&Prop{
		ID: "C19", Level: "exploration", QuickS: 20, ThoroughS: 300,
		Rule:       "seeded server configurations with 0-5 session middlewares (each adds a distinct context value, any one may fail), optional terminate hook (succeeding or failing), with and without authentication, and command histories (simple and extended, errors, Terminate followed by more bytes); every middleware, parser and statement callback records the context it receives (middleware values, client and server parameters, remote address, type map, liveness, whether the previous command's context has been cancelled); judged by the event-order monitor plus the reference model (which predicts the middleware and terminate-hook events); a quarter of the sessions end abruptly instead (failing write, peer vanishing at a byte offset, read error) and the last command's context is sampled once the connection has ended; variant: a statement cancels the middleware-derived session context, one more query is answered, then Terminate must still run the hook once; E2 variant: Server.Close pinned inside a running statement callback that lets time pass and inspects its context again (live until the command ends); Terminate messages with surplus bytes; a middleware that succeeds but returns a context that has already ended (the later ones still run); E2 variant close-during-startup (Server.Close while a connection accepted before it is inside its password validation: the startup completes as if nothing had happened); a fifth of the cases build a second Server from the very same option values (plus a middleware of its own) before or after the server under test; non-trivial = at least one middleware is registered and at least one command callback ran, or a middleware failed, or a Terminate was sent; distinct = distinct case content hashes",
		Components: append(append([]string{}, e1Components...), "E2 share (the variants that pin Server.Close or other connections against a running session): seeded scheduler harness/kernel.go decides every interleaving of connection goroutines and Close callers at transport operations, callbacks, hand-placed hooks and spliced synchronisation points"), Assumptions: commonAssumptions,
		Gen: func(r *Rand, tier string) *Case {
			if r.Chance(1, 25) {
				return genC19Cancel(r)
			}
			if r.Chance(1, 30) {
				return genC19Close(r)
			}
			if r.Chance(1, 30) {
				return genCloseDuringStartup(r, "C19")
			}
			if r.Chance(1, 30) {
				// a middleware that succeeds but hands back a context that has already
				// ended: the later middlewares run all the same, once each, in order
				// (the client sends nothing after its startup: what a session under a
				// dead context answers to commands is not stated anywhere)
				c := &Case{Variant: "middleware-returns-ended-context", Server: ServerCfg{Limit: 4096}, Programs: map[string]*Program{}}
				n := r.Range(2, 5)
				for i := 0; i < n; i++ {
					c.Server.MW = append(c.Server.MW, MWSpec{})
				}
				c.Server.MW[r.Intn(n-1)].Done = true
				c.Conns = []ConnCase{{Steps: []Step{{Msgs: []pgwire.FMsg{startupMsg("u", "d")}}}, Cuts: genCuts(r)}}
				return c
			}
			c := &Case{Server: ServerCfg{Limit: smallLimit(r)}}
			nmw := r.PickInt(0, 1, 2, 3, 5)
			for i := 0; i < nmw; i++ {
				c.Server.MW = append(c.Server.MW, MWSpec{})
			}
			if nmw > 0 && r.Chance(1, 4) {
				k := r.Intn(nmw)
				c.Server.MW[k].Fail = true
				// (a failure is a failure, also when it looks transient: a timeout)
				c.Server.MW[k].Transient = r.Chance(1, 3)
			}
			c.Server.Term = r.Pick("", "ok", "ok", "fail")
			if r.Chance(1, 4) {
				c.Server.Auth = "cleartext"
			}
			if r.Chance(1, 5) {
				// a second Server built from the same option values in the same process
				c.Server.Sibling = r.Pick("before", "after")
			}
			genGlobalParams(r, c)
			genHistory(r, c, histOpts{simple: true, extended: true, errs: true, params: r.Bool(), closes: true, terminate: true, multi: true, copy: r.Chance(1, 6), maxUnits: units(tier, 5)})
			if r.Chance(1, 4) {
				// a Terminate that carries bytes inside its declared length is a
				// Terminate all the same
				for si := range c.Conns[0].Steps {
					for mi := range c.Conns[0].Steps[si].Msgs {
						if m := &c.Conns[0].Steps[si].Msgs[mi]; m.K == "X" {
							m.Tail = r.PickBytes([]byte{0}, []byte("bye\x00"), r.Bytes(r.Range(1, 8)))
						}
					}
				}
			}
			if r.Chance(1, 3) {
				// Terminate followed by more bytes
				last := &c.Conns[0].Steps[len(c.Conns[0].Steps)-1]
				x := pgwire.FMsg{K: "X"}
				if r.Chance(1, 4) {
					x.Tail = r.Bytes(r.Range(1, 8))
				}
				last.Msgs = append(last.Msgs, x, pgwire.FMsg{K: "Q", S1: "after-terminate"}, pgwire.FMsg{K: "raw", Data: r.Bytes(9)})
				if r.Chance(1, 3) {
					// closing the connection reports an error (the hook runs regardless)
					c.Conns[0].Faults = []Fault{{Kind: "close-err"}}
				}
			} else if r.Chance(1, 4) {
				// the session ends abruptly instead: the peer vanishes in the middle
				// of a reply or of a message (a command that ends with an error is
				// still a command that has ended)
				switch r.Intn(3) {
				case 0:
					c.Conns[0].Faults = []Fault{{Kind: "write-err", At: r.Range(7, 30), Bytes: r.Intn(5)}}
				case 1:
					c.Conns[0].Faults = []Fault{{Kind: "eof-at-byte", At: r.Range(60, 600)}}
				case 2:
					c.Conns[0].Faults = []Fault{{Kind: "read-err", At: r.Range(3, 30)}}
				}
			}
			return c
		},
		Check: func(x *Exec, c *Case) ([]Violation, bool) {
			if c.Variant == "terminate-after-session-cancel" {
				return checkC19Cancel(x, c)
			}
			if c.Variant == "close-during-command" {
				return checkC19Close(x, c)
			}
			if c.Variant == "close-during-startup" {
				return checkCloseDuringStartup("C19", x, c)
			}
			viol, r, _ := modelCheck("C19", x, c)
			nt := false
			for i, cs := range r.Conns {
				t := ParseOut(cs)
				if t.Grammar != nil {
					continue
				}
				viol = append(viol, lifecycleOracle("C19", c, i, cs, t)...)
				cmds := countKind(cs, "parse") + countKind(cs, "stmt")
				if (len(c.Server.MW) > 0 && cmds > 0) || countKind(cs, "terminate") > 0 {
					nt = true
				}
				for _, mw := range c.Server.MW {
					if mw.Fail {
						nt = true
					}
				}
			}
			return viol, nt
		},
	})

	// ------------------------------------------------------------------ C12
	register(&Prop{
		ID: "C12", Level: "exploration", QuickS: 25, ThoroughS: 420, Race: true,
		Rule:        "seeded startup negotiations: startup packets with 1-8 key/value pairs (duplicates, empty values, an empty key in the middle, missing final terminator, missing value), configured global parameter maps (nil, empty, custom keys) and version strings, with and without authentication, CancelRequest as first packet / after an SSLRequest was declined; callbacks read ClientParameters, ServerParameters and AuthenticatedUsername back; E2 share: 2-5 connections of different users connect concurrently to one server sharing one user-supplied map, under seeded schedules and (race shard) under the -race build with the HB-transparent scheduler; mixed-case keys, server_version configured through the map with and without a Version string, 2-4 connections served one after the other by the same server; the GlobalParameters option given twice (both user maps compared with their copies); sequential connections after a peer that vanished mid-reply; E2 variant: a CancelRequest on a connection accepted just before Server.Close; non-trivial = a session was established and at least one callback read the parameters back, or a cancel/malformed packet was refused; distinct = distinct case content hashes; variant look-alike-startup-packets: clients served one after the other whose startup packets have equal length and user names that collide under FNV-1a / FNV-1 / Adler-32 / multiply-by-31; an eighth of the servers have 1-3 session middlewares, one of which may refuse the session (the startup reply then ends without ReadyForQuery); E2 variant close-during-startup",
		Components:  append(append([]string{}, e1Components...), "E2 share: seeded scheduler interleaves the connecting users; race shard: -race build, kernel synchronisation hidden from the detector"),
		Assumptions: commonAssumptions,
		Gen:         genC12,
		RaceGen: func(r *Rand, tier string) *Case {
			// the race shard runs the concurrent-users scenario only (the duplex
			// TLS connection shares harness buffers between two goroutines and is
			// not meant for the race oracle)
			return genC12Concurrent(r)
		},
		Check: checkC12,
	})
}

func genC12One(r *Rand, c *Case, user string) ConnCase {
	db := r.Ident(3)
	su := pgwire.FMsg{K: "startup", KV: genStartupKV(r, user, db)}
	if r.Chance(1, 6) {
		// a newer minor version of protocol 3 (what current libpq can send): a
		// regular startup packet
		su.Proto = uint32(r.PickInt(0x00030001, 0x00030002, 0x00030063))
	}
	kind := r.Intn(12)
	var steps []Step
	cancel := pgwire.FMsg{K: "cancel"}
	if r.Chance(1, 3) {
		// a cancel key of another length (protocol 3.2 keys are up to 256 bytes),
		// or a truncated packet; realistic pids start with a zero byte
		switch r.Intn(3) {
		case 0:
			cancel.Data = append([]byte{0, 0, 0x12, 0x34}, r.Bytes(r.PickInt(0, 1, 5, 28, 252))...)
		case 1:
			cancel.Data = []byte{0, 0}[:r.Intn(3)]
		case 2:
			cancel.Data = append([]byte{0, 1, 0xE2, 0x40}, r.Bytes(32)...)
		}
	}
	switch kind {
	case 0: // cancel as first packet
		steps = []Step{{Msgs: []pgwire.FMsg{cancel, {K: "Q", S1: "after-cancel"}}}}
	case 1: // SSLRequest declined, then cancel
		steps = []Step{{Msgs: []pgwire.FMsg{{K: "ssl"}}}, {Msgs: []pgwire.FMsg{cancel}}, {Msgs: []pgwire.FMsg{{K: "Q", S1: "after-cancel"}}}}
	case 2: // missing terminator
		su.NoTerm = true
		steps = []Step{{Msgs: []pgwire.FMsg{su}}, {Msgs: []pgwire.FMsg{{K: "Q", S1: "q-after-bad-startup"}}}}
	case 3: // missing value: key without value at the end
		su.Tail = []byte("orphan-key\x00")
		su.NoTerm = true
		steps = []Step{{Msgs: []pgwire.FMsg{su}}, {Msgs: []pgwire.FMsg{{K: "Q", S1: "q-after-bad-startup"}}}}
	case 4: // empty key in the middle terminates early
		mid := r.Intn(len(su.KV) + 1)
		kv := append([][2]string{}, su.KV[:mid]...)
		kv = append(kv, [2]string{"", ""})
		kv = append(kv, su.KV[mid:]...)
		su.KV = kv
		fallthrough
	default:
		if kind >= 9 {
			steps = append(steps, Step{Msgs: []pgwire.FMsg{{K: "ssl"}}}) // declined: continue in plaintext
		}
		steps = append(steps, Step{Msgs: []pgwire.FMsg{su}})
		if c.Server.Auth == "cleartext" {
			pw := "pw-" + user
			c.Server.Validator = append(c.Server.Validator, AuthEntry{DB: startupParams(&su)["database"], User: startupParams(&su)["user"], PW: pw, Out: "accept"})
			steps = append(steps, Step{Msgs: []pgwire.FMsg{{K: "p", S1: pw}}})
		}
		key := "qc" + user
		c.Programs[key] = &Program{Stmts: []*StmtProg{{Cols: []ColSpec{{Name: "v", OID: pgwire.OIDText}}, Ops: []Op{{K: "ctx"}, {K: "row", Row: []Val{{G: "string", S: user}}}, {K: "complete", Tag: "SELECT 1"}}}}}
		steps = append(steps, Step{Msgs: []pgwire.FMsg{{K: "Q", S1: key}, {K: "Q", S1: key}}})
	}
	return ConnCase{Steps: steps, Cuts: genCuts(r)}
}

// genClosedAtAccept (engine E2): a connection is accepted, and before its
// goroutine does anything with it Server.Close signals the shutdown; then the
// client's first packet (first) arrives. How a negotiation is answered does
// not depend on that.
func genClosedAtAccept(r *Rand, variant string, srv ServerCfg, steps []Step) *Case {
	c := &Case{Variant: variant, Server: srv, Programs: map[string]*Program{}}
	c.Conns = []ConnCase{{Steps: steps}}
	c.Sched = &SchedCase{Strategy: r.Pick("uniform", "pct"), Depth: 1, MaxSteps: 200000, Closers: []Closer{{Calls: 1}},
		Holds: []Hold{{Task: 2, Point: "closer.start", Until: 0, UntilPoint: "accept"}, {Task: 1, Point: "conn.start", Until: 2, UntilPoint: r.Pick("close.signalled", "close.signalled", "closer.returned")}}}
	return c
}

func genC12(r *Rand, tier string) *Case {
	if r.Chance(1, 4) {
		return genC12Concurrent(r)
	}
	if r.Chance(1, 30) {
		// a CancelRequest (first packet, or behind a declined SSLRequest) on a
		// connection that was accepted just before Close
		steps := []Step{{Msgs: []pgwire.FMsg{{K: "cancel"}}}}
		if r.Bool() {
			steps = []Step{{Msgs: []pgwire.FMsg{{K: "ssl"}}}, {Msgs: []pgwire.FMsg{{K: "cancel"}}}}
		}
		return genClosedAtAccept(r, "cancel-while-closing", ServerCfg{Limit: 4096}, steps)
	}
	if r.Chance(1, 12) {
		// CancelRequest after a successful SSL negotiation (inside TLS): decided
		// with the TLS machinery of C11
		for {
			c := genC11(r, tier)
			if c.Variant == "cancel-after-upgrade" {
				return c
			}
		}
	}
	if r.Chance(1, 30) {
		return genCloseDuringStartup(r, "C12")
	}
	if r.Chance(1, 25) {
		// two clients, one after the other, whose startup packets are of equal
		// length and differ only in user names that collide under a popular string
		// hash (FNV-1a, FNV-1, Adler-32, multiply-by-31): each is told, and its
		// callbacks see, its own user
		pairs := [][2]string{{"svc00720089", "svc01214000"}, {"svc00916628", "svc01054066"}, {"svc00000020", "svc00000101"}, {"svcAaBBAa", "svcBBAaBB"}, {"svcAa", "svcBB"}}
		pr := pairs[r.Intn(len(pairs))]
		if r.Bool() {
			pr[0], pr[1] = pr[1], pr[0]
		}
		c := &Case{Variant: "look-alike-startup-packets", Server: ServerCfg{Limit: 4096}, Programs: map[string]*Program{}}
		if r.Chance(1, 3) {
			c.Server.MW = []MWSpec{{}}
		}
		db := r.Ident(3)
		for _, u := range pr {
			c.Conns = append(c.Conns, ConnCase{Steps: []Step{{Msgs: []pgwire.FMsg{startupMsg(u, db)}}, {Msgs: []pgwire.FMsg{{K: "Q", S1: "whoami"}, {K: "X"}}}}})
		}
		if r.Bool() {
			c.Conns = append(c.Conns, c.Conns[0])
		}
		return c
	}
	c := &Case{Server: ServerCfg{Limit: r.PickInt(1000, 4096, 65536)}, Programs: map[string]*Program{}}
	if r.Chance(1, 3) {
		c.Server.Auth = "cleartext"
	}
	genGlobalParams(r, c)
	c.Server.CloseHook = r.Chance(1, 3)
	if r.Chance(1, 8) {
		// session middlewares, one of which may refuse the session: a refused
		// startup is never told ReadyForQuery
		for n := r.Range(1, 3); n > 0; n-- {
			c.Server.MW = append(c.Server.MW, MWSpec{})
		}
		if r.Bool() {
			k := r.Intn(len(c.Server.MW))
			c.Server.MW[k].Fail = true
			c.Server.MW[k].Transient = r.Chance(1, 3)
		}
	}
	c.Conns = []ConnCase{genC12One(r, c, "u"+r.Ident(3))}
	if r.Chance(1, 5) {
		// further connections served one after the other by the same server:
		// nothing of an earlier (possibly malformed) negotiation may show up later
		for n := r.Range(1, 3); n > 0; n-- {
			c.Conns = append(c.Conns, genC12One(r, c, "v"+r.Ident(3)))
		}
		if r.Chance(1, 3) {
			// an earlier peer vanishes in the middle of its startup reply (from
			// some write on, its transport fails), or one write of it fails once:
			// the connections served afterwards are none the worse for it
			k := r.Intn(len(c.Conns) - 1)
			c.Conns[k].Faults = []Fault{{Kind: r.Pick("write-err", "write-err", "write-err-transient"), At: r.Range(0, 7), Bytes: r.PickInt(0, 0, 3, 1000)}}
		}
	}
	return c
}

func genC12Concurrent(r *Rand) *Case {
	c := &Case{Server: ServerCfg{Limit: 4096}, Programs: map[string]*Program{}}
	if r.Chance(1, 3) {
		c.Server.Auth = "cleartext"
	}
	genGlobalParams(r, c)
	if c.Server.Params == nil {
		c.Server.Params = map[string]string{"x_shared": "1"}
	}
	n := r.Range(2, 5)
	for i := 0; i < n; i++ {
		cc := genC12One(r, c, fmt.Sprintf("user%d%s", i, r.Ident(2)))
		c.Conns = append(c.Conns, cc)
	}
	c.Sched = &SchedCase{Strategy: r.Pick("uniform", "pct", "pct"), Depth: r.Range(1, 3)}
	return c
}

func checkC12(x *Exec, c *Case) ([]Violation, bool) {
	if len(c.Conns) > 0 && c.Conns[0].TLS != nil {
		viol, nt := checkC11(x, c)
		for i := range viol {
			viol[i].Prop = "C12"
		}
		return viol, nt
	}
	if c.Variant == "close-during-startup" {
		return checkCloseDuringStartup("C12", x, c)
	}
	if c.Variant == "cancel-while-closing" {
		r := x.Run(c)
		c.Sched.Schedule = r.Schedule
		cs := r.Conns[0]
		var viol []Violation
		if r.HoldsForced > 0 || r.Accepts == 0 {
			x.Probe("cancel_while_closing_inconclusive")
			return nil, false
		}
		x.Probe("cancel_while_closing")
		out := cs.Out
		if cs.cc.FirstIsSSLRequest() && len(out) > 0 && out[0] == 'N' {
			out = out[1:]
		}
		if len(out) != 0 {
			viol = append(viol, Violation{Prop: "C12", Rule: "cancel-answered", Sig: "cancel-answered", Detail: fmt.Sprintf("conn 0 (accepted just before Server.Close signalled the shutdown): a CancelRequest was answered with %q", trunc(string(out), 60))})
		}
		if n := countKind(cs, "parse") + countKind(cs, "stmt") + countKind(cs, "validator") + countKind(cs, "mw"); n > 0 {
			viol = append(viol, Violation{Prop: "C12", Rule: "cancel-callback", Sig: "cancel-callback", Detail: "conn 0: a CancelRequest caused callbacks: " + trunc(CallbackTrace(cs), 120)})
		}
		return viol, true
	}
	viol, r, _ := modelCheck("C12", x, c)
	nt := false
	if c.Sched != nil {
		c.Sched.Schedule = r.Schedule
	}
	if r.ParamsMutated != "" {
		viol = append(viol, Violation{Prop: "C12", Rule: "global-parameters-mutated", Sig: "global-parameters-mutated",
			Detail: "the user-supplied GlobalParameters map was modified by serving connections: " + r.ParamsMutated})
	}
	for i, cs := range r.Conns {
		t := ParseOut(cs)
		if t.Grammar != nil {
			continue
		}
		viol = append(viol, lifecycleOracle("C12", c, i, cs, t)...)
		viol = append(viol, startupBlockOracle("C12", c, i, cs, t)...)
		msgs := cs.cc.FlatMsgs()
		kinds := pgwire.Kinds(t.Msgs)
		// cancel: zero protocol bytes after the SSL byte, no callback, closed
		for mi := range msgs {
			if msgs[mi].K == "cancel" && (mi == 0 || (mi == 1 && msgs[0].K == "ssl")) {
				nt = true
				if len(t.Msgs) != 0 {
					viol = append(viol, Violation{Prop: "C12", Rule: "cancel-answered", Sig: "cancel-answered", Detail: fmt.Sprintf("conn %d: a CancelRequest was answered with %q", i, kinds)})
				}
				if CallbackTrace(cs) != "" {
					viol = append(viol, Violation{Prop: "C12", Rule: "cancel-callback", Sig: "cancel-callback", Detail: fmt.Sprintf("conn %d: a CancelRequest caused callbacks: %s", i, trunc(CallbackTrace(cs), 120))})
				}
			}
		}
		// malformed startup packets: no session
		if su := firstStartup(cs.cc); su != nil && (su.NoTerm) {
			nt = true
			if strings.ContainsAny(kinds, "Z") || countKind(cs, "parse") > 0 {
				viol = append(viol, Violation{Prop: "C12", Rule: "session-from-malformed-startup", Sig: "session-from-malformed-startup",
					Detail: fmt.Sprintf("conn %d: a startup packet without terminator/value established a session (%q)", i, kinds)})
			}
		}
		if countKind(cs, "ctx") > 0 {
			nt = true
		}
	}
	return viol, nt
}

package harness

import (
	"fmt"
	"strings"

	"verif/pgwire"
)

// This file is the executable reference model of the protocol behaviour the
// properties state (DESIGN.md Appendix A). It is deliberately small: two maps,
// a phase, and a counter-and-flag result writer. Where a property is silent
// the model is permissive: a step may return several acceptable branches, or
// mark the rest of the connection as not judged (Loose).

// Exp is one expected backend message.
type Exp struct {
	T     byte
	Opt   bool // may be absent
	Star  bool // zero or more messages of this type
	Desc  string
	Check func(m *pgwire.Msg) string // "" = ok
}

// Branch is one acceptable continuation after a client message.
type Branch struct {
	Exp      []Exp
	Ev       []string // expected callback events (exact strings)
	Next     *MState
	Consumed int  // client messages consumed (>= 1)
	End      bool // the server ends the connection: no output and no callback after this
	Loose    bool // the property is silent from here on: stop judging this connection
}

// MStmt is a prepared statement as the model sees it.
type MStmt struct {
	Key   string
	Prog  *StmtProg
	Query string
}

// MPortal is a bound portal.
type MPortal struct {
	Stmt   *MStmt
	Params []pgwire.Param
	PFmt   []int16 // resolved, one per parameter
	RFmt   []int16 // raw result format list
	Ambig  bool    // its statement was closed afterwards: the property does not say whether it survives
}

// MState is the model state of one connection.
type MState struct {
	Phase   string // startup, auth, ready, discarding, closed
	Stmts   map[string]*MStmt
	Portals map[string]*MPortal
	CParams map[string]string
	SSLDone bool
}

func (s *MState) clone() *MState {
	n := &MState{Phase: s.Phase, Stmts: map[string]*MStmt{}, Portals: map[string]*MPortal{}, CParams: s.CParams, SSLDone: s.SSLDone}
	for k, v := range s.Stmts {
		n.Stmts[k] = v
	}
	for k, v := range s.Portals {
		n.Portals[k] = v
	}
	return n
}

// Model evaluates client messages against a server configuration.
type Model struct {
	Cfg      *ServerCfg
	Programs map[string]*Program
	Limit    int
	// LenientZ: property C10 does not say whether a ReadyForQuery directly
	// follows the 54000 error of an oversized extended message (C06 does).
	LenientZ bool
	// StrictTerminate: C19 states unconditionally that a Terminate message runs
	// the hook and closes the connection, so for C19 a Terminate received while
	// discarding-until-Sync must be honoured (C06 leaves that open).
	StrictTerminate bool
}

// NewModel builds the model for a case.
func NewModel(c *Case) *Model {
	m := &Model{Cfg: &c.Server, Programs: c.Programs, Limit: c.Server.Limit, StrictTerminate: c.Prop == "C19"}
	if m.Limit <= 0 {
		m.Limit = 1 << 24
	}
	return m
}

// Start returns the initial state.
func (m *Model) Start() *MState {
	return &MState{Phase: "startup", Stmts: map[string]*MStmt{}, Portals: map[string]*MPortal{}}
}

func (m *Model) program(query string) *Program {
	if p, ok := m.Programs[ProgramKey(query)]; ok && p != nil {
		return p
	}
	return FallbackProgram()
}

// ---- expectation constructors ----------------------------------------------

func expSimple(t byte, desc string) Exp { return Exp{T: t, Desc: desc} }

func expReady() Exp {
	return Exp{T: 'Z', Desc: "ReadyForQuery(I)", Check: func(m *pgwire.Msg) string {
		if m.Status != 'I' {
			return fmt.Sprintf("status %q, want I", m.Status)
		}
		return ""
	}}
}

func expAuth(code int32) Exp {
	return Exp{T: 'R', Desc: fmt.Sprintf("Authentication(%d)", code), Check: func(m *pgwire.Msg) string {
		if m.AuthCode != code {
			return fmt.Sprintf("auth code %d, want %d", m.AuthCode, code)
		}
		return ""
	}}
}

func expError(spec *ErrSpec, desc string) Exp {
	return Exp{T: 'E', Desc: "ErrorResponse(" + desc + ")", Check: func(m *pgwire.Msg) string {
		if spec == nil || len(spec.Join) > 0 {
			// (how several joined causes are rendered into the one message is not fixed)
			return ""
		}
		if got, want := m.Fields['M'], spec.ExpectedMessage(); got != want {
			return fmt.Sprintf("message %q, want %q", got, want)
		}
		return ""
	}}
}

func expErrorCode(code, sev, desc string) Exp {
	return Exp{T: 'E', Desc: "ErrorResponse(" + desc + ")", Check: func(m *pgwire.Msg) string {
		if code != "" && !strings.HasPrefix(m.Fields['C'], code) {
			return fmt.Sprintf("SQLSTATE %q, want prefix %q", m.Fields['C'], code)
		}
		if sev != "" && m.Fields['S'] != sev {
			return fmt.Sprintf("severity %q, want %q", m.Fields['S'], sev)
		}
		return ""
	}}
}

func resolveFormats(raw []int16, n int) ([]int16, bool) {
	out := make([]int16, n)
	switch {
	case len(raw) == 0:
	case len(raw) == 1:
		for i := range out {
			out[i] = raw[0]
		}
	case len(raw) == n:
		copy(out, raw)
	default:
		return out, false
	}
	return out, true
}

func expRowDesc(cols []ColSpec, rfmt []int16) Exp {
	fm, _ := resolveFormats(rfmt, len(cols))
	return Exp{T: 'T', Desc: "RowDescription", Check: func(m *pgwire.Msg) string {
		if len(m.Cols) != len(cols) {
			return fmt.Sprintf("%d fields, want %d", len(m.Cols), len(cols))
		}
		for i, c := range cols {
			g := m.Cols[i]
			if g.Name != c.Name || g.OID != c.OID {
				return fmt.Sprintf("field %d is (%q, oid %d), want (%q, oid %d)", i, g.Name, g.OID, c.Name, c.OID)
			}
			if g.Format != fm[i] {
				return fmt.Sprintf("field %d announces format %d, want %d", i, g.Format, fm[i])
			}
		}
		return ""
	}}
}

func expDataRow(cols []ColSpec, rfmt []int16, row []Val) Exp {
	fm, _ := resolveFormats(rfmt, len(cols))
	return Exp{T: 'D', Desc: "DataRow", Check: func(m *pgwire.Msg) string {
		if len(m.Row) != len(cols) {
			return fmt.Sprintf("%d fields, want %d", len(m.Row), len(cols))
		}
		for i, c := range cols {
			want := row[i].Canon(c.OID)
			if m.Row[i] == nil {
				if !want.Null {
					return fmt.Sprintf("field %d is NULL, want %s", i, want)
				}
				continue
			}
			if want.Null {
				return fmt.Sprintf("field %d (%s written as SQL NULL) arrives with length %d instead of -1", i, row[i].G, len(m.Row[i]))
			}
			got, err := pgwire.Decode(c.OID, fm[i], m.Row[i])
			if err != nil {
				return fmt.Sprintf("field %d (oid %d, format %d): %v", i, c.OID, fm[i], err)
			}
			if !got.Equal(want) {
				return fmt.Sprintf("field %d (oid %d, format %d): decoded %s, want %s", i, c.OID, fm[i], got, want)
			}
		}
		return ""
	}}
}

func expComplete(tag string) Exp {
	return Exp{T: 'C', Desc: fmt.Sprintf("CommandComplete(%q)", tag), Check: func(m *pgwire.Msg) string {
		if m.Tag != tag {
			return fmt.Sprintf("tag %q, want %q", m.Tag, tag)
		}
		return ""
	}}
}

func expParamDesc(oids []uint32) Exp {
	return Exp{T: 't', Desc: "ParameterDescription", Check: func(m *pgwire.Msg) string {
		if len(m.OIDs) != len(oids) {
			return fmt.Sprintf("%d parameters, want %d", len(m.OIDs), len(oids))
		}
		for i := range oids {
			if m.OIDs[i] != oids[i] {
				return fmt.Sprintf("parameter %d oid %d, want %d", i, m.OIDs[i], oids[i])
			}
		}
		return ""
	}}
}

func expCopyIn(format int16, ncols int) Exp {
	return Exp{T: 'G', Desc: "CopyInResponse", Check: func(m *pgwire.Msg) string {
		if int16(m.CopyFormat) != format {
			return fmt.Sprintf("overall format %d, want %d", m.CopyFormat, format)
		}
		if len(m.CopyCols) != ncols {
			return fmt.Sprintf("%d column formats, want %d", len(m.CopyCols), ncols)
		}
		for i, f := range m.CopyCols {
			if f != format {
				return fmt.Sprintf("column %d format %d, want %d", i, f, format)
			}
		}
		return ""
	}}
}

// DeclaredParams returns the parameter OIDs a statement program declares for a
// query text (independent count for the ParseParameters option: highest $n, or
// the number of ? markers).
func DeclaredParams(sp *StmtProg, query string) []uint32 {
	if sp.PP {
		return make([]uint32, CountPlaceholders(query))
	}
	return sp.Params
}

// CountPlaceholders is the independent scanner for `$n` / `?` placeholders.
func CountPlaceholders(q string) int {
	n := 0
	for i := 0; i < len(q); i++ {
		switch q[i] {
		case '?':
			n++
		case '$':
			j := i + 1
			v := 0
			for j < len(q) && q[j] >= '0' && q[j] <= '9' {
				if v < 1<<30 {
					v = v*10 + int(q[j]-'0')
				}
				j++
			}
			if j > i+1 {
				if v > n {
					n = v
				}
				i = j - 1
			}
		}
	}
	if n > 65535 {
		n = 65535 // the protocol cannot express more parameters
	}
	return n
}

// ---- result writer and statement execution -----------------------------------

type execOut struct {
	exp      []Exp
	ev       []string
	failed   bool // the statement function returned an error (or the COPY was aborted)
	consumed int  // extra client messages consumed by COPY reads
	loose    bool
	end      bool // input ended inside COPY
}

func rowEncodable(cols []ColSpec, row []Val, rfmt []int16) bool {
	if len(row) != len(cols) {
		return false
	}
	fm, _ := resolveFormats(rfmt, len(cols))
	for i, v := range row {
		if v.G == "chan" {
			return false
		}
		// a Go string holding the text form of a non-text value is accepted for
		// the text format only (classification verified against pgtype at start-up)
		if v.G == "strtext" && fm[i] == 1 && pgwire.KindOf(cols[i].OID) != "text" {
			return false
		}
	}
	return true
}

// runStmt models one statement function execution: the DataWriter state
// machine of C05 and the COPY sub-protocol of C13. rest are the client
// messages following the one being processed.
func (m *Model) runStmt(key string, idx int, sp *StmtProg, params []pgwire.Param, pfmt []int16, rfmt []int16, declared []uint32, rest []pgwire.FMsg, simple bool) execOut {
	var o execOut
	o.ev = append(o.ev, fmt.Sprintf("stmt %s#%d nparams=%d", key, idx, len(params)))
	closed := false
	written := 0
	inCopy := false
	copyAborted := false
	copyEnded := ""
	lastErr := "ok"
	retClass := "ok"
	var retSpec *ErrSpec
	finish := func() execOut {
		o.ev = append(o.ev, fmt.Sprintf("stmt-end %s#%d %s", key, idx, retClass))
		if copyAborted && retClass == "ok" {
			// the client aborted the COPY but the handler swallowed the error:
			// the cycle must still carry exactly one ErrorResponse, but where it
			// sits relative to the handler's own output is not fixed; counted by
			// C13's own oracle, not sequenced here
			o.loose = true
			return o
		}
		if retClass != "ok" || copyAborted {
			o.failed = true
			o.exp = append(o.exp, expError(retSpec, "statement failed"))
		}
		return o
	}
	for oi, op := range sp.Ops {
		switch op.K {
		case "row":
			for n := 0; n == 0 || n < op.N; n++ {
				res := "err"
				if !closed && rowEncodable(sp.Cols, op.Row, rfmt) {
					res = "ok"
					written++
					o.exp = append(o.exp, expDataRow(sp.Cols, rfmt, op.Row))
				}
				lastErr = res
				o.ev = append(o.ev, fmt.Sprintf("op %d row %s", oi, res))
			}
		case "written":
			o.ev = append(o.ev, fmt.Sprintf("op %d written %d", oi, written))
		case "complete":
			res := "err"
			if !closed {
				res = "ok"
				closed = true
				o.exp = append(o.exp, expComplete(op.Tag))
			}
			lastErr = res
			o.ev = append(o.ev, fmt.Sprintf("op %d complete %s", oi, res))
		case "empty":
			if !closed && written > 0 {
				// Empty() after rows were delivered: whatever it returns, it must not
				// disturb the state machine (rows stay deliverable, completion still
				// emits its CommandComplete)
				o.ev = append(o.ev, fmt.Sprintf("op %d empty *", oi))
				continue
			}
			if !closed {
				// the property says nothing about Empty() on a writer without rows
				o.loose = true
				return o
			}
			lastErr = "err"
			o.ev = append(o.ev, fmt.Sprintf("op %d empty err", oi))
		case "copyin":
			if closed {
				lastErr = "err"
				o.ev = append(o.ev, fmt.Sprintf("op %d copyin err", oi))
				continue
			}
			if len(sp.Cols) == 0 {
				lastErr = "err"
				o.ev = append(o.ev, fmt.Sprintf("op %d copyin err", oi))
				continue
			}
			if inCopy {
				if copyEnded != "eof" || copyAborted {
					// a second COPY started while the first has not ended cleanly: not fixed
					o.loose = true
					return o
				}
				// the first stream ended with CopyDone: this is a new stream
				copyEnded = ""
			}
			inCopy = true
			lastErr = "ok"
			o.exp = append(o.exp, expCopyIn(op.Fmt, len(sp.Cols)))
			o.ev = append(o.ev, fmt.Sprintf("op %d copyin ok", oi))
		case "copyread", "copyall":
			if !inCopy {
				o.ev = append(o.ev, fmt.Sprintf("op %d %s nocopy", oi, op.K))
				continue
			}
			if copyEnded == "eof" {
				// reading on after CopyDone: the properties do not say
				o.loose = true
				return o
			}
			for n := 0; op.K == "copyall" || n < op.N; n++ {
				if copyAborted {
					// the abort is sticky: further reads fail and consume nothing
					lastErr = "err"
					o.ev = append(o.ev, fmt.Sprintf("op %d copyread err", oi))
					break
				}
				// fetch the next message that is not Flush/Sync
				var msg *pgwire.FMsg
				for o.consumed < len(rest) {
					c := &rest[o.consumed]
					o.consumed++
					if t := c.TypeByte(); t == 'H' || t == 'S' {
						if c.DeclaredBody() != 0 {
							o.loose = true
							return o
						}
						continue
					}
					msg = c
					break
				}
				if msg == nil {
					// input ends inside COPY: the connection ends; not judged further
					o.end = true
					o.loose = true
					return o
				}
				if msg.TypeByte() == 0 {
					o.loose = true
					return o
				}
				if msg.DeclLen != nil || msg.Cut != nil || msg.NoNul {
					o.loose = true
					return o
				}
				if msg.DeclaredBody() > int64(m.Limit) {
					// an oversized message inside COPY is skipped in full and aborts the COPY
					lastErr = "err"
					copyAborted = true
					o.ev = append(o.ev, fmt.Sprintf("op %d copyread err", oi))
					break
				}
				switch msg.TypeByte() {
				case 'd':
					lastErr = "ok"
					o.ev = append(o.ev, fmt.Sprintf("op %d copyread data %s", oi, hexs(append(append([]byte{}, msg.Data...), msg.Tail...))))
					continue
				case 'c':
					lastErr = "eof"
					copyEnded = "eof"
					o.ev = append(o.ev, fmt.Sprintf("op %d copyread eof", oi))
				default:
					// CopyFail or any non-COPY message aborts the COPY
					lastErr = "err"
					copyAborted = true
					o.ev = append(o.ev, fmt.Sprintf("op %d copyread err", oi))
				}
				break
			}
		case "params":
			var sb strings.Builder
			for i, p := range params {
				var v []byte
				if !p.Null {
					v = p.V
					if v == nil {
						v = []byte{}
					}
				}
				fmt.Fprintf(&sb, " [%d f=%d v=%s]", i, pfmt[i], hexs(v))
				if v != nil && len(v) == 0 {
					sb.WriteString("(empty)")
				}
			}
			o.ev = append(o.ev, fmt.Sprintf("op %d params n=%d%s", oi, len(params), sb.String()))
		case "scan":
			var sb strings.Builder
			wildcard := false
			for i, p := range params {
				var oidv uint32
				if i < len(op.OIDs) {
					oidv = op.OIDs[i]
				} else if i < len(declared) {
					oidv = declared[i]
				}
				if p.Null {
					fmt.Fprintf(&sb, " [%d NULL]", i)
					continue
				}
				if oidv == pgwire.OIDBytea && pfmt[i] == 0 && !strings.HasPrefix(string(p.V), `\x`) {
					// escape-format bytea text: valid PostgreSQL input that the type
					// library does not read; not judged
					wildcard = true
				}
				v, err := pgwire.Decode(oidv, pfmt[i], p.V)
				if err != nil {
					fmt.Fprintf(&sb, " [%d err]", i)
					continue
				}
				fmt.Fprintf(&sb, " [%d %s]", i, v.String())
			}
			if wildcard {
				o.ev = append(o.ev, fmt.Sprintf("op %d scan *", oi))
			} else {
				o.ev = append(o.ev, fmt.Sprintf("op %d scan%s", oi, sb.String()))
			}
		case "retain", "ctx":
		case "yield":
			o.ev = append(o.ev, fmt.Sprintf("op %d yield", oi))
		case "sleep":
			o.ev = append(o.ev, fmt.Sprintf("op %d sleep", oi))
		case "panic":
			o.ev = append(o.ev, fmt.Sprintf("op %d panic", oi))
			retClass = "panic"
			retSpec = nil
			return finish()
		case "return":
			if op.Err != nil {
				retClass = "err"
				retSpec = op.Err
			}
			return finish()
		case "retlast":
			switch lastErr {
			case "err":
				retClass = "err"
			case "eof":
				// returning io.EOF from a statement function: the library
				// treats EOF specially in its command loop; not judged
				o.loose = true
				return o
			}
			return finish()
		case "binrows":
			o.loose = true
			return o
		default:
			o.loose = true
			return o
		}
	}
	if !closed && !copyAborted {
		// a statement function that returns success without completing: the
		// properties do not say what the client receives
		o.loose = true
		return o
	}
	return finish()
}

// ---- message steps -----------------------------------------------------------

func isPlain(c *pgwire.FMsg) bool {
	return c.DeclLen == nil && c.Cut == nil && c.Pad == 0 && !c.NoNul && len(c.CountOverride) == 0
}

func isBlank(q string) bool { return strings.TrimSpace(q) == "" }

func one(b Branch) []Branch {
	if b.Consumed == 0 {
		b.Consumed = 1
	}
	return []Branch{b}
}

// Step returns the acceptable continuations for client message msgs[i] in
// state st.
func (m *Model) Step(st *MState, msgs []pgwire.FMsg, i int) []Branch {
	c := &msgs[i]
	if (st.Phase == "startup" || st.Phase == "auth") && c.K != "raw" && c.Cut == nil && c.DeclLen == nil && c.DeclaredBody() > int64(m.Limit) {
		// oversized during startup or authentication: the connection ends
		// without a session (an ErrorResponse on the way out is acceptable)
		n := st.clone()
		n.Phase = "closed"
		return one(Branch{Exp: []Exp{{T: 'E', Opt: true, Desc: "ErrorResponse(too large during startup)"}}, Next: n, End: true})
	}
	switch st.Phase {
	case "startup":
		return m.stepStartup(st, c)
	case "auth":
		return m.stepAuth(st, c)
	case "closed":
		return one(Branch{Next: st, End: true})
	}
	if c.K == "flood" && len(c.Data) < m.Limit && (st.Phase == "ready" || st.Phase == "discarding") && strings.IndexByte("dcfH", c.T) >= 0 {
		// a run of COPY messages outside COPY mode (or of Flush): ignored, however long
		return one(Branch{Next: st})
	}
	t := c.TypeByte()
	if c.K == "raw" || t == 0 || c.Cut != nil || c.NoNul || len(c.CountOverride) > 0 {
		return one(Branch{Next: st, Loose: true})
	}
	body := c.DeclaredBody()
	if body < 0 {
		return one(Branch{Next: st, Loose: true})
	}
	if c.DeclLen != nil {
		// declared length differs from the bytes that follow: only oversized
		// skips are modelled, and only when fully padded
		return one(Branch{Next: st, Loose: true})
	}
	known := strings.IndexByte("QPBDECHSXdcf", t) >= 0
	// ---- oversized ----
	if body > int64(m.Limit) {
		e := expErrorCode("54000", "ERROR", "message too large")
		if st.Phase == "discarding" {
			n2 := st.clone()
			bs := []Branch{{Next: st, Consumed: 1}, {Exp: []Exp{e}, Next: n2, Consumed: 1}}
			if t == 'S' {
				// an oversized Sync while discarding: whether it still counts as the
				// Sync that ends the batch is not fixed by the properties
				rd := st.clone()
				rd.Phase = "ready"
				zopt := expReady()
				zopt.Opt = true
				bs = append(bs, Branch{Exp: []Exp{e, zopt}, Next: rd, Consumed: 1})
			}
			return bs
		}
		switch {
		case t == 'Q':
			return one(Branch{Exp: []Exp{e, expReady()}, Next: st})
		case strings.IndexByte("PBDEC", t) >= 0:
			n := st.clone()
			n.Phase = "discarding"
			bs := one(Branch{Exp: []Exp{e}, Next: n})
			if m.LenientZ {
				bs = append(bs, Branch{Exp: []Exp{e, expReady()}, Next: st, Consumed: 1})
			}
			return bs
		default:
			// Sync/Flush/Terminate/COPY/unknown types of excessive size: the
			// properties do not fix the continuation
			n := st.clone()
			n.Phase = "discarding"
			zopt := expReady()
			zopt.Opt = true
			return []Branch{{Exp: []Exp{e, zopt}, Next: st, Consumed: 1}, {Exp: []Exp{e}, Next: n, Consumed: 1}}
		}
	}
	// ---- discarding until Sync ----
	if st.Phase == "discarding" {
		switch {
		case t == 'S':
			n := st.clone()
			n.Phase = "ready"
			return one(Branch{Exp: []Exp{expReady()}, Next: n})
		case t == 'X':
			ev := []string{}
			if m.Cfg.Term != "" {
				ev = append(ev, "terminate "+m.Cfg.Term)
			}
			closed := st.clone()
			closed.Phase = "closed"
			if m.StrictTerminate {
				return []Branch{{Ev: ev, Next: closed, End: true, Consumed: 1}}
			}
			return []Branch{{Next: st, Consumed: 1}, {Ev: ev, Next: closed, End: true, Consumed: 1}}
		case !known:
			closed := st.clone()
			closed.Phase = "closed"
			eopt := Exp{T: 'E', Opt: true, Desc: "ErrorResponse(unknown type)"}
			return []Branch{{Next: st, Consumed: 1}, {Exp: []Exp{eopt}, Next: closed, End: true, Consumed: 1}}
		}
		return one(Branch{Next: st})
	}
	// ---- ready ----
	errBranch := func(e Exp) []Branch {
		n := st.clone()
		n.Phase = "discarding"
		return one(Branch{Exp: []Exp{e}, Next: n})
	}
	switch t {
	case 'Q':
		if !isPlain(c) {
			return one(Branch{Next: st, Loose: true})
		}
		return m.stepQuery(st, c, msgs[i+1:])
	case 'P':
		if !isPlain(c) || m.Cfg.NilParse {
			return one(Branch{Next: st, Loose: true})
		}
		prog := m.program(c.S2)
		ev := []string{"parse " + c.S2}
		if prog.ParseErr != nil {
			ev = append(ev, "parse-ret err")
			b := errBranch(expError(prog.ParseErr, "parser failed"))
			b[0].Ev = ev
			return b
		}
		ev = append(ev, fmt.Sprintf("parse-ret %d", len(prog.Stmts)))
		if len(prog.Stmts) != 1 {
			b := errBranch(Exp{T: 'E', Desc: "ErrorResponse(not exactly one statement)"})
			b[0].Ev = ev
			return b
		}
		n := st.clone()
		n.Stmts[c.S1] = &MStmt{Key: ProgramKey(c.S2), Prog: prog.Stmts[0], Query: c.S2}
		return one(Branch{Exp: []Exp{expSimple('1', "ParseComplete")}, Ev: ev, Next: n})
	case 'B':
		if !isPlain(c) {
			return one(Branch{Next: st, Loose: true})
		}
		stmt := st.Stmts[c.S2]
		if stmt == nil {
			return errBranch(Exp{T: 'E', Desc: "ErrorResponse(unknown statement)"})
		}
		declared := DeclaredParams(stmt.Prog, stmt.Query)
		pf, ok1 := resolveFormats(c.PFmt, len(c.Params))
		_, ok2 := resolveFormats(c.RFmt, len(stmt.Prog.Cols))
		for _, f := range append(append([]int16{}, c.PFmt...), c.RFmt...) {
			if f != 0 && f != 1 {
				ok1 = false
			}
		}
		n := st.clone()
		n.Portals[c.S1] = &MPortal{Stmt: stmt, Params: c.Params, PFmt: pf, RFmt: c.RFmt}
		okb := Branch{Exp: []Exp{expSimple('2', "BindComplete")}, Next: n, Consumed: 1}
		if len(c.Params) != len(declared) || !ok1 || !ok2 {
			// inadmissible counts: the properties do not say whether the Bind is
			// accepted; if it is, what the portal then does is not judged
			nl := st.clone()
			nl.Phase = "discarding"
			return []Branch{{Exp: []Exp{Exp{T: 'E', Desc: "ErrorResponse(bad Bind)"}}, Next: nl, Consumed: 1},
				{Exp: okb.Exp, Next: n, Consumed: 1, Loose: true}}
		}
		return []Branch{okb}
	case 'D':
		if !isPlain(c) {
			return one(Branch{Next: st, Loose: true})
		}
		switch c.Sub {
		case 'S':
			stmt := st.Stmts[c.S1]
			if stmt == nil {
				return errBranch(Exp{T: 'E', Desc: "ErrorResponse(unknown statement)"})
			}
			exp := []Exp{expParamDesc(DeclaredParams(stmt.Prog, stmt.Query))}
			if len(stmt.Prog.Cols) == 0 {
				exp = append(exp, expSimple('n', "NoData"))
			} else {
				exp = append(exp, expRowDesc(stmt.Prog.Cols, nil))
			}
			return one(Branch{Exp: exp, Next: st})
		case 'P':
			p := st.Portals[c.S1]
			if p == nil {
				return errBranch(Exp{T: 'E', Desc: "ErrorResponse(unknown portal)"})
			}
			var exp []Exp
			if len(p.Stmt.Prog.Cols) == 0 {
				exp = append(exp, expSimple('n', "NoData"))
			} else {
				exp = append(exp, expRowDesc(p.Stmt.Prog.Cols, p.RFmt))
			}
			bs := one(Branch{Exp: exp, Next: st})
			if p.Ambig {
				bs = append(bs, errBranch(Exp{T: 'E', Desc: "ErrorResponse(portal of a closed statement)"})...)
			}
			return bs
		}
		return errBranch(Exp{T: 'E', Desc: "ErrorResponse(bad Describe kind)"})
	case 'E':
		if !isPlain(c) {
			return one(Branch{Next: st, Loose: true})
		}
		p := st.Portals[c.S1]
		if p == nil {
			return errBranch(Exp{T: 'E', Desc: "ErrorResponse(unknown portal)"})
		}
		declared := DeclaredParams(p.Stmt.Prog, p.Stmt.Query)
		o := m.runStmt(p.Stmt.Key, 0, p.Stmt.Prog, p.Params, p.PFmt, p.RFmt, declared, msgs[i+1:], false)
		b := Branch{Exp: o.exp, Ev: o.ev, Next: st, Consumed: 1 + o.consumed, Loose: o.loose, End: o.end}
		if o.failed {
			n := st.clone()
			n.Phase = "discarding"
			b.Next = n
		}
		bs := []Branch{b}
		if p.Ambig {
			bs = append(bs, errBranch(Exp{T: 'E', Desc: "ErrorResponse(portal of a closed statement)"})...)
		}
		return bs
	case 'C':
		if !isPlain(c) {
			return one(Branch{Next: st, Loose: true})
		}
		n := st.clone()
		switch c.Sub {
		case 'S':
			if old := n.Stmts[c.S1]; old != nil {
				for k, p := range n.Portals {
					if p.Stmt == old {
						cp := *p
						cp.Ambig = true
						n.Portals[k] = &cp
					}
				}
			}
			delete(n.Stmts, c.S1)
		case 'P':
			delete(n.Portals, c.S1)
		default:
			return one(Branch{Next: st, Loose: true})
		}
		return one(Branch{Exp: []Exp{expSimple('3', "CloseComplete")}, Next: n})
	case 'H':
		return one(Branch{Next: st})
	case 'S':
		return one(Branch{Exp: []Exp{expReady()}, Next: st})
	case 'd', 'c', 'f':
		return one(Branch{Next: st})
	case 'X':
		ev := []string{}
		if m.Cfg.Term != "" {
			ev = append(ev, "terminate "+m.Cfg.Term)
		}
		n := st.clone()
		n.Phase = "closed"
		return one(Branch{Ev: ev, Next: n, End: true})
	}
	// unknown message type: exactly one ErrorResponse; the continuation is open
	e := Exp{T: 'E', Desc: "ErrorResponse(unknown message type)"}
	closed := st.clone()
	closed.Phase = "closed"
	disc := st.clone()
	disc.Phase = "discarding"
	return []Branch{
		{Exp: []Exp{e, expReady()}, Next: st, Consumed: 1},
		{Exp: []Exp{e}, Next: disc, Consumed: 1},
		{Exp: []Exp{e}, Next: closed, End: true, Consumed: 1},
	}
}

func (m *Model) stepQuery(st *MState, c *pgwire.FMsg, rest []pgwire.FMsg) []Branch {
	if m.Cfg.NilParse {
		return one(Branch{Next: st, Loose: true})
	}
	if isBlank(c.S1) {
		return one(Branch{Exp: []Exp{expSimple('I', "EmptyQueryResponse"), expReady()}, Next: st})
	}
	prog := m.program(c.S1)
	b := Branch{Next: st, Consumed: 1}
	b.Ev = append(b.Ev, "parse "+c.S1)
	if prog.ParseErr != nil {
		b.Ev = append(b.Ev, "parse-ret err")
		b.Exp = []Exp{expError(prog.ParseErr, "parser failed"), expReady()}
		return []Branch{b}
	}
	b.Ev = append(b.Ev, fmt.Sprintf("parse-ret %d", len(prog.Stmts)))
	if len(prog.Stmts) == 0 {
		b.Exp = []Exp{{T: 'E', Desc: "ErrorResponse(no statement)"}, expReady()}
		return []Branch{b}
	}
	key := ProgramKey(c.S1)
	for idx, sp := range prog.Stmts {
		o := m.runStmt(key, idx, sp, nil, nil, nil, DeclaredParams(sp, c.S1), rest[b.Consumed-1:], true)
		if len(sp.Cols) > 0 {
			t := expRowDesc(sp.Cols, nil)
			// required before the first DataRow / CommandComplete, optional when
			// the statement fails before delivering anything
			delivered := false
			for _, e := range o.exp {
				if e.T == 'D' || e.T == 'C' || e.T == 'G' {
					delivered = true
				}
			}
			t.Opt = !delivered
			b.Exp = append(b.Exp, t)
		}
		b.Exp = append(b.Exp, o.exp...)
		b.Ev = append(b.Ev, o.ev...)
		b.Consumed += o.consumed
		if o.loose {
			b.Loose = true
			b.End = o.end
			return []Branch{b}
		}
		if o.failed {
			break
		}
	}
	b.Exp = append(b.Exp, expReady())
	return []Branch{b}
}

func (m *Model) stepStartup(st *MState, c *pgwire.FMsg) []Branch {
	switch c.K {
	case "startup":
		// (minor versions of protocol 3 are regular startup packets; other major
		// versions are not judged)
		if !isPlain(c) || c.NoTerm || (c.Proto != 0 && c.Proto>>16 != 3) || len(c.Tail) > 0 {
			return one(Branch{Next: st, Loose: true})
		}
		n := st.clone()
		n.CParams = map[string]string{}
		for _, kv := range c.KV {
			if kv[0] == "" {
				break
			}
			n.CParams[kv[0]] = kv[1]
		}
		// a client that asks for a newer minor version or for protocol options
		// may be told what the server supports before the authentication exchange
		var pre []Exp
		negotiable := c.Proto != 0 && c.Proto != pgwire.ProtoV3
		for _, kv := range c.KV {
			if strings.HasPrefix(kv[0], "_pq_.") {
				negotiable = true
			}
		}
		if negotiable {
			pre = []Exp{{T: 'v', Opt: true, Desc: "NegotiateProtocolVersion"}}
		}
		if m.Cfg.Auth == "cleartext" {
			n.Phase = "auth"
			return one(Branch{Exp: append(pre, expAuth(3)), Next: n})
		}
		if m.Cfg.Auth == "custom-fail" {
			n.Phase = "closed"
			return one(Branch{Next: n, End: true})
		}
		bs := m.afterAuth(n, nil)
		for i := range bs {
			bs[i].Exp = append(append([]Exp{}, pre...), bs[i].Exp...)
		}
		return bs
	case "ssl":
		if st.SSLDone || m.Cfg.TLS == "certs" {
			return one(Branch{Next: st, Loose: true})
		}
		n := st.clone()
		n.SSLDone = true
		return one(Branch{Next: n})
	case "cancel":
		n := st.clone()
		n.Phase = "closed"
		return one(Branch{Next: n, End: true})
	}
	return one(Branch{Next: st, Loose: true})
}

func (m *Model) afterAuth(n *MState, ev []string) []Branch {
	exp := []Exp{expAuth(0), {T: 'S', Star: true, Desc: "ParameterStatus*"}}
	for i, mw := range m.Cfg.MW {
		seen := make([]string, 0, i)
		for j := 0; j < i; j++ {
			seen = append(seen, fmt.Sprint(j))
		}
		ev = append(ev, fmt.Sprintf("mw %d sees=[%s] fail=%v", i, strings.Join(seen, ","), mw.Fail))
		if mw.Fail {
			n.Phase = "closed"
			return one(Branch{Exp: exp, Ev: ev, Next: n, End: true})
		}
	}
	n.Phase = "ready"
	exp = append(exp, expReady())
	return one(Branch{Exp: exp, Ev: ev, Next: n})
}

func (m *Model) stepAuth(st *MState, c *pgwire.FMsg) []Branch {
	n := st.clone()
	if c.K != "p" || !isPlain(c) || len(c.Tail) > 0 {
		// anything but a well-formed password message: judged by C01's own oracle
		return one(Branch{Next: st, Loose: true})
	}
	out := m.Cfg.DefaultAuth
	if out == "" {
		out = "reject"
	}
	db, user := st.CParams["database"], st.CParams["user"]
	for _, e := range m.Cfg.Validator {
		if e.DB == db && e.User == user && e.PW == c.S1 {
			out = e.Out
			break
		}
	}
	ev := []string{fmt.Sprintf("validator db=%q user=%q pw=%q -> %s", db, user, c.S1, out)}
	switch out {
	case "accept":
		return m.afterAuth(n, ev)
	case "reject":
		n.Phase = "closed"
		return one(Branch{Exp: []Exp{expErrorCode("28", "", "invalid password")}, Ev: ev, Next: n, End: true})
	}
	// "fail" and "failtrue": the validator returned an error
	n.Phase = "closed"
	eopt := Exp{T: 'E', Opt: true, Desc: "ErrorResponse(validator failed)"}
	return one(Branch{Exp: []Exp{eopt}, Ev: ev, Next: n, End: true})
}

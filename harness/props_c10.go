package harness

import (
	"fmt"
	"strings"

	"verif/pgwire"
)

const probeKey = "probe"

func probeProgram() *Program {
	return &Program{Stmts: []*StmtProg{{Ops: []Op{{K: "complete", Tag: "PROBE OK"}}}}}
}

// injectedPattern is what fills skipped bodies: it spells valid protocol
// messages, so that incomplete skipping or a resynchronisation that is off
// produces callbacks.
func injectedPattern() []byte {
	var b []byte
	b = append(b, (&pgwire.FMsg{K: "Q", S1: "INJECTED"}).Bytes()...)
	b = append(b, (&pgwire.FMsg{K: "S"}).Bytes()...)
	return b
}

// sizedMsg builds a message of type t whose declared body is exactly body
// bytes. For body <= limit it is a well-formed message padded with
// grammar-external bytes; beyond the limit it is a synthetic body. ok=false
// when the type cannot have such a small body.
func sizedMsg(c *Case, t byte, body int64, limit int, key string) (pgwire.FMsg, bool) {
	if body > int64(limit) {
		return pgwire.FMsg{K: "typed", T: t, Pad: body, PadPat: injectedPattern()}, true
	}
	var m pgwire.FMsg
	switch t {
	case 'Q':
		if body < 1 {
			return m, false
		}
		q := key
		if int64(len(q)+1) > body {
			q = strings.Repeat(" ", int(body)-1)
		} else {
			q += strings.Repeat(" ", int(body)-1-len(q))
		}
		return pgwire.FMsg{K: "Q", S1: q}, true
	case 'P':
		m = pgwire.FMsg{K: "P", S1: "", S2: key}
	case 'B':
		m = pgwire.FMsg{K: "B"}
	case 'D', 'C':
		m = pgwire.FMsg{K: string(t), Sub: 'S', S1: ""}
	case 'E':
		m = pgwire.FMsg{K: "E"}
	case 'S', 'H', 'c', 'X':
		m = pgwire.FMsg{K: string(t)}
	case 'd':
		return pgwire.FMsg{K: "d", Data: make([]byte, body)}, true
	case 'f':
		m = pgwire.FMsg{K: "f", S1: ""}
	default:
		return pgwire.FMsg{K: "typed", T: t, Data: make([]byte, body)}, true
	}
	base := int64(len(m.Body()))
	if base > body {
		// shrink the query key for Parse when possible
		if t == 'P' && body >= 4 {
			m.S2 = ""
			base = int64(len(m.Body()))
		}
		if base > body {
			return m, false
		}
	}
	if body > base {
		m.Tail = make([]byte, body-base)
		for i := range m.Tail {
			m.Tail[i] = 'j'
		}
	}
	return m, true
}

// c10Case builds one boundary case: startup, an optional lead-in, the sized
// message of type t, then (Sync for extended types and) a probe query.
func c10Case(limit int, t byte, body int64, position int, truncated bool, cuts []int) (*Case, bool) {
	eff := limit
	if eff <= 0 {
		eff = 1 << 24
	}
	c := &Case{Server: ServerCfg{Limit: limit}, Programs: map[string]*Program{probeKey: probeProgram(), "k": {Stmts: []*StmtProg{{Cols: []ColSpec{{Name: "a", OID: pgwire.OIDInt4}}, Ops: []Op{{K: "row", Row: []Val{{G: "int32", I: 1}}}, {K: "complete", Tag: "SELECT 1"}}}}}}}
	su := pgwire.FMsg{K: "startup"}
	if eff >= 16 {
		su.KV = [][2]string{{"user", "u"}}
	}
	if int(su.DeclaredBody()) > eff {
		return nil, false
	}
	m, ok := sizedMsg(c, t, body, eff, "k")
	if !ok {
		return nil, false
	}
	var msgs []pgwire.FMsg
	probe, okp := sizedMsg(c, 'Q', int64(len(probeKey)+1), eff, probeKey)
	switch position {
	case 1: // after a complete simple cycle
		if okp {
			msgs = append(msgs, probe)
		}
	case 2: // inside a pipelined extended batch
		if p, ok := sizedMsg(c, 'P', 4, eff, ""); ok {
			msgs = append(msgs, p)
		}
	case 3: // while the session is discarding until Sync (an extended message failed just before)
		if d, ok := sizedMsg(c, 'D', 3, eff, ""); ok {
			d.S1 = "x" // Describe of a statement that does not exist
			d.Tail = nil
			if d.DeclaredBody() <= int64(eff) {
				msgs = append(msgs, d)
			}
		}
	}
	if truncated && body > int64(eff) {
		m.Pad = body
		m.DeclLen = u32p(uint32(body + 4))
		keep := int64(eff/2 + 3)
		if keep > body {
			keep = body / 2
		}
		m.Pad = keep // only part of the declared body is ever sent
		msgs = append(msgs, m)
		c.Conns = []ConnCase{{Steps: []Step{{Msgs: []pgwire.FMsg{su}}, {Msgs: msgs}}, Cuts: cuts, Measure: true}}
		c.Variant = "truncated"
		return c, true
	}
	msgs = append(msgs, m)
	if (strings.IndexByte("PBDECH", t) >= 0 || position >= 2) && !(position == 3 && t == 'S' && body > int64(eff)) {
		// (after an oversized Sync that arrived while discarding no further Sync is
		// sent: once the server has answered ReadyForQuery it must serve the next
		// query; otherwise the following Sync would hide a discard flag left set)
		msgs = append(msgs, pgwire.FMsg{K: "S"})
	}
	if okp && t != 'X' {
		msgs = append(msgs, probe)
	}
	steps := []Step{{Msgs: []pgwire.FMsg{su}}}
	if position >= 2 || len(cuts)%2 == 1 {
		steps = append(steps, Step{Msgs: msgs}) // pipelined
	} else {
		for i := range msgs {
			steps = append(steps, Step{Msgs: msgs[i : i+1]})
		}
	}
	c.Conns = []ConnCase{{Steps: steps, Cuts: cuts, Measure: true}}
	return c, true
}

var c10Types = []byte("QPBDECHSXdcfz")

func c10Limits(tier string) []int {
	ls := []int{5, 16, 64, 100, 1000, 4095, 4096, 4097, 65536}
	return ls
}

func c10Fixed(tier string) []*Case {
	var out []*Case
	for _, L := range c10Limits(tier) {
		for _, t := range c10Types {
			for _, d := range []int64{-1, 0, 1} {
				for pos := 0; pos < 4; pos++ {
					if c, ok := c10Case(L, t, int64(L)+d, pos, false, nil); ok {
						c.Variant = "grid"
						out = append(out, c)
					}
				}
			}
		}
	}
	// startup and password phase, and sub-minimum lengths
	for _, L := range []int{16, 64, 1000, 4096} {
		for _, d := range []int64{-1, 0, 1, int64(L)} {
			// startup packet of body L+d
			c := &Case{Variant: "startup", Server: ServerCfg{Limit: L}, Programs: map[string]*Program{probeKey: probeProgram()}}
			su := pgwire.FMsg{K: "startup", KV: [][2]string{{"user", "u"}}}
			want := int64(L) + d
			base := su.DeclaredBody()
			if want >= base {
				// pad with an extra parameter value so that the packet stays well formed
				su.KV = append(su.KV, [2]string{"p", strings.Repeat("v", int(want-base))})
				for su.DeclaredBody() > want && len(su.KV[1][1]) > 0 {
					su.KV[1][1] = su.KV[1][1][1:]
				}
				for su.DeclaredBody() < want {
					su.KV[1][1] += "v"
				}
			}
			c.Conns = []ConnCase{{Steps: []Step{{Msgs: []pgwire.FMsg{su}}, {Msgs: []pgwire.FMsg{{K: "Q", S1: probeKey}}}}}}
			out = append(out, c)
			// password message of body L+d
			c2 := &Case{Variant: "password", Server: ServerCfg{Limit: L, Auth: "cleartext", Validator: nil, DefaultAuth: "accept"}, Programs: map[string]*Program{probeKey: probeProgram()}}
			pw := strings.Repeat("s", int(want)-1)
			c2.Conns = []ConnCase{{Steps: []Step{{Msgs: []pgwire.FMsg{{K: "startup", KV: [][2]string{{"user", "u"}}}}}, {Msgs: []pgwire.FMsg{{K: "p", S1: pw}}}, {Msgs: []pgwire.FMsg{{K: "Q", S1: probeKey}}}}}}
			out = append(out, c2)
		}
		for _, declared := range []uint32{uint32(L) + 5, 1 << 20, 1 << 28, 0x7fffffff, 0xfffffff0} {
			for _, sent := range []int{8, 9, 40} {
				out = append(out, c10Silent(L, "startup", declared, sent), c10Silent(L, "password", declared, sent-3))
			}
		}
		for dl := uint32(0); dl < 4; dl++ {
			for _, t := range []byte("QPBES") {
				c := &Case{Variant: "subminimum", Server: ServerCfg{Limit: L}, Programs: map[string]*Program{probeKey: probeProgram()}}
				c.Conns = []ConnCase{{Measure: true, Steps: []Step{{Msgs: []pgwire.FMsg{{K: "startup", KV: [][2]string{{"user", "u"}}}}}, {Msgs: []pgwire.FMsg{{K: "typed", T: t, DeclLen: u32p(dl)}}}}}}
				out = append(out, c)
			}
			c := &Case{Variant: "subminimum-startup", Server: ServerCfg{Limit: L}}
			c.Conns = []ConnCase{{Measure: true, Steps: []Step{{Msgs: []pgwire.FMsg{{K: "startup", DeclLen: u32p(dl), Cut: intp(4)}}}}}}
			out = append(out, c)
		}
	}
	return out
}

// c10Silent: an unauthenticated peer declares an oversized startup packet or
// password message, sends only its first bytes and then stays silent (the
// connection stays open on its side).
func c10Silent(L int, phase string, declared uint32, sent int) *Case {
	c := &Case{Variant: "silent-oversized-" + phase, Server: ServerCfg{Limit: L}, Expect: map[string]any{"declared": declared}}
	pad := strings.Repeat("v", 64)
	switch phase {
	case "startup":
		su := pgwire.FMsg{K: "startup", KV: [][2]string{{"user", "u"}, {"p", pad}}, DeclLen: u32p(declared), Cut: intp(sent)}
		c.Conns = []ConnCase{{NoEOF: true, Steps: []Step{{Msgs: []pgwire.FMsg{su}}}}}
	case "password":
		c.Server.Auth = "cleartext"
		c.Server.DefaultAuth = "accept"
		pw := pgwire.FMsg{K: "p", S1: pad, DeclLen: u32p(declared), Cut: intp(sent)}
		c.Conns = []ConnCase{{NoEOF: true, Steps: []Step{{Msgs: []pgwire.FMsg{{K: "startup", KV: [][2]string{{"user", "u"}}}}}, {Msgs: []pgwire.FMsg{pw}}}}}
	}
	return c
}

func genC10(r *Rand, tier string) *Case {
	if r.Chance(1, 40) {
		L := r.PickInt(16, 64, 1000, 4096, 65536)
		return c10Silent(L, r.Pick("startup", "password"), uint32(r.PickInt(L+5, 2*L, 1<<20, 0x7fffffff, 0xffffffff)), r.PickInt(5, 6, 8, 12, 60))
	}
	if r.Chance(1, 30) {
		// one to three headers that declare a length below 4, then - if the server
		// is still there - an oversized message and a probe query: whatever the
		// too-short headers left behind, the oversized body is skipped in full
		L := r.PickInt(64, 256, 1000, 4096)
		c := &Case{Variant: "subminimum-then-oversized", Server: ServerCfg{Limit: L}, Programs: map[string]*Program{probeKey: probeProgram()}}
		var msgs []pgwire.FMsg
		for k := r.Range(1, 3); k > 0; k-- {
			msgs = append(msgs, pgwire.FMsg{K: "typed", T: byte(r.Pick("Q", "P", "B", "E", "S", "d")[0]), DeclLen: u32p(uint32(r.Intn(4)))})
		}
		if r.Bool() {
			msgs = append(msgs, pgwire.FMsg{K: "Q", S1: probeKey})
		}
		body := int64(L) + int64(r.PickInt(1, 19, 38, L, 2*L+7))
		msgs = append(msgs, pgwire.FMsg{K: "typed", T: byte(r.Pick("Q", "Q", "d", "P")[0]), Pad: body, PadPat: injectedPattern()}, pgwire.FMsg{K: "S"}, pgwire.FMsg{K: "Q", S1: probeKey})
		steps := []Step{{Msgs: []pgwire.FMsg{{K: "startup", KV: [][2]string{{"user", "u"}}}}}}
		if r.Bool() {
			steps = append(steps, Step{Msgs: msgs})
		} else {
			for i := range msgs {
				steps = append(steps, Step{Msgs: msgs[i : i+1]})
			}
		}
		c.Conns = []ConnCase{{Steps: steps, Cuts: genCuts(r), Measure: true}}
		return c
	}
	L := r.PickInt(5, 16, 64, 100, 1000, 4095, 4096, 4097, 65536)
	if r.Chance(1, 60) {
		L = r.PickInt(0, -1)
	}
	eff := L
	if eff <= 0 {
		eff = 1 << 24
	}
	t := c10Types[r.Intn(len(c10Types))]
	var body int64
	switch r.Intn(10) {
	case 0:
		body = int64(eff) - 1
	case 1:
		body = int64(eff)
	case 2:
		body = int64(eff) + 1
	case 3:
		body = 2 * int64(eff)
	case 4:
		body = 2*int64(eff) + 1
	case 5:
		body = 64 << 20
	case 6:
		body = 1<<31 - 5
	case 7:
		body = 1<<32 - 5
	case 8:
		body = int64(r.Range(0, eff))
	case 9:
		body = int64(eff) + int64(r.Range(1, 3*eff+10))
	}
	truncated := body > 8<<20 || (body > int64(eff) && r.Chance(1, 3))
	if eff > 1<<20 && body > int64(eff) {
		truncated = true
	}
	cuts := genCuts(r)
	if body > 1<<16 || eff > 1<<16 {
		cuts = nil
		if r.Bool() {
			cuts = []int{r.PickInt(4096, 1000, 65536)}
		}
	}
	if r.Chance(1, 8) && eff >= 64 && eff < 1<<20 {
		return c10Copy(r, L, eff)
	}
	c, ok := c10Case(L, t, body, r.Intn(4), truncated, cuts)
	if !ok {
		c, _ = c10Case(L, 'Q', int64(eff)+1, 0, false, cuts)
	}
	if c.Variant == "" && eff >= 64 && eff <= 1<<16 && r.Chance(1, 3) {
		c10Fill(r, c, eff)
	}
	if c.Variant == "" && body > int64(eff) && body < 1<<20 && r.Chance(1, 4) {
		// the oversized message arrives in two flights: its header and a part of
		// its body, then - once the server waits for more - the rest. Nothing is
		// answered before the message has been skipped in full.
		st := c.Conns[0].Steps
		for si := 1; si+1 < len(st); si++ {
			if n := len(st[si].Msgs); n > 0 && st[si].Msgs[n-1].DeclaredBody() > int64(eff) {
				st[si].HoldBack = r.PickInt(5, 6, 9, 5+eff/2, 5+eff, int(body))
				break
			}
		}
	}
	if c.Variant == "" && body > int64(eff) && body < 1<<16 && r.Chance(1, 6) {
		// one read in the middle of the exchange reports a timeout (nothing is
		// lost, the next read succeeds): whether the server gives the connection
		// up or carries on, it never answers differently from the undisturbed run
		c.Variant = "transient-read-timeout"
		cut := r.PickInt(7, 20, 50, 100, 1000)
		c.Conns[0].Cuts = []int{cut}
		// (the read that fails is drawn from all reads of the exchange, most of
		// which deliver pieces of the oversized body)
		var total int64
		for _, st := range c.Conns[0].Steps {
			for i := range st.Msgs {
				for _, ch := range st.Msgs[i].Encode() {
					total += ch.Len()
				}
			}
		}
		c.Conns[0].Faults = []Fault{{Kind: "read-timeout", At: r.Range(1, int(total)/cut+len(c.Conns[0].Steps)+2), Timeout: true}}
		return c
	}
	if r.Chance(1, 5) && eff >= 64 {
		// a pass-through auth strategy hands the harness the connection's reader:
		// its window is watched for blocks larger than the limit
		c.Server.Auth = "passthrough"
	}
	if st := c.Conns[0].Steps; c.Variant != "truncated" && r.Chance(1, 4) {
		// the client takes its time before the last message: whatever the skipping
		// armed or left behind must not outlive it
		last := &st[len(st)-1]
		if n := len(last.Msgs); n > 1 {
			tail := last.Msgs[n-1]
			last.Msgs = last.Msgs[:n-1]
			c.Conns[0].Steps = append(st, Step{Msgs: []pgwire.FMsg{tail}, IdleMs: r.PickInt(2500, 31000, 3600000)})
		} else {
			last.IdleMs = r.PickInt(2500, 31000, 3600000)
		}
	}
	return c
}

// c10Fill puts legal traffic in front of the sized message so that the read
// window is in different states when the sized message arrives: one large legal
// message (a parsed Query or a stray CopyData nobody consumes) of 4096, 4097,
// 5000, L-1 or L bytes, or a run of small legal queries whose bodies (with the
// startup packet's) add up to a total around 4096 / 8192 bytes.
func c10Fill(r *Rand, c *Case, eff int) {
	cc := &c.Conns[0]
	if len(cc.Steps) < 2 {
		return
	}
	var fill []pgwire.FMsg
	var big []int
	for _, n := range []int{4096, 4097, 5000, eff - 1, eff} {
		if n <= eff && n >= 64 {
			big = append(big, n)
		}
	}
	if len(big) > 0 && r.Bool() {
		n := big[r.Intn(len(big))]
		if r.Bool() {
			m, _ := sizedMsg(c, 'Q', int64(n), eff, "k")
			fill = append(fill, m)
		} else {
			fill = append(fill, pgwire.FMsg{K: "d", Data: make([]byte, n)})
		}
		if r.Chance(1, 3) {
			m, _ := sizedMsg(c, 'Q', int64(r.PickInt(2, 100)), eff, "k")
			fill = append([]pgwire.FMsg{m}, fill...)
		}
	} else {
		var sum int64
		for _, st := range cc.Steps {
			for i := range st.Msgs {
				if b := st.Msgs[i].DeclaredBody(); b <= int64(eff) {
					sum += b
				}
			}
		}
		target := int64(r.PickInt(4096, 4096, 4095, 4097, 8192))
		for target <= sum {
			target += 4096
		}
		left := target - sum
		per := int64(r.PickInt(eff, eff/2, 256, 100))
		if per > int64(eff) || per < 2 {
			per = int64(eff)
		}
		for left > 0 && len(fill) < 400 {
			n := per
			if left < n {
				n = left
			}
			if left-n == 1 {
				n-- // (a Query needs a body of at least one byte)
			}
			if n < 1 {
				break
			}
			m, ok := sizedMsg(c, 'Q', n, eff, "k")
			if !ok {
				break
			}
			fill = append(fill, m)
			left -= n
		}
	}
	if len(fill) == 0 {
		return
	}
	// in front of the flight that carries the sized message (pipelined with it
	// or as a flight of its own)
	if r.Bool() {
		cc.Steps[1].Msgs = append(fill, cc.Steps[1].Msgs...)
	} else {
		steps := append([]Step{}, cc.Steps[:1]...)
		steps = append(steps, Step{Msgs: fill})
		cc.Steps = append(steps, cc.Steps[1:]...)
	}
}

// c10Copy: an oversized CopyData / CopyFail / foreign messages inside COPY mode.
func c10Copy(r *Rand, L, eff int) *Case {
	c := &Case{Variant: "copy", Server: ServerCfg{Limit: L}, Programs: map[string]*Program{probeKey: probeProgram()}}
	c.Programs["cp"] = &Program{Stmts: []*StmtProg{{Cols: []ColSpec{{Name: "a", OID: pgwire.OIDText}}, Ops: []Op{{K: "copyin"}, {K: "copyall"}, {K: "retlast"}}}}}
	msgs := []pgwire.FMsg{{K: "Q", S1: "cp"}}
	if r.Bool() {
		msgs = append(msgs, pgwire.FMsg{K: "d", Data: []byte("ok-chunk")})
	}
	if eff >= 4096 && r.Bool() {
		// a large legal chunk right in front of the oversized message
		n := r.PickInt(4096, 4097, 5000, eff-1, eff)
		if n > eff {
			n = eff
		}
		msgs = append(msgs, pgwire.FMsg{K: "d", Data: make([]byte, n)})
	}
	// the oversized message inside COPY mode: CopyData, CopyFail or a foreign message
	ot := byte(r.Pick("d", "d", "f", "Q", "P", "S")[0])
	over := pgwire.FMsg{K: "typed", T: ot, Pad: int64(eff) + int64(r.PickInt(1, eff, 2*eff+1)), PadPat: injectedPattern()}
	switch r.Intn(8) {
	case 0:
		// the peer goes away inside the oversized body: the stream has not ended
		// with CopyDone, so the handler is never told that it has
		c.Variant = "copy-truncated"
		over.DeclLen = u32p(uint32(over.Pad + 4))
		over.Pad = int64(r.PickInt(0, 1, 10, eff/2, eff))
		msgs = append(msgs, over)
		c.Conns = []ConnCase{{Steps: []Step{{Msgs: []pgwire.FMsg{{K: "startup", KV: [][2]string{{"user", "u"}}}}}, {Msgs: msgs}}, Cuts: genCuts(r)}}
		return c
	case 1:
		// the session's context (derived by a middleware) ends while the handler
		// is reading the stream, and the next message is oversized: whatever
		// becomes of the COPY, the body is skipped, never parsed
		c.Variant = "copy-cancelled"
		c.Server.MW = []MWSpec{{Cancel: true}}
		c.Programs["cp"] = &Program{Stmts: []*StmtProg{{Cols: []ColSpec{{Name: "a", OID: pgwire.OIDText}}, Ops: []Op{{K: "copyin"}, {K: "copyread", N: 1}, {K: "cancel"}, {K: "copyall"}, {K: "retlast"}}}}}
		msgs = []pgwire.FMsg{{K: "Q", S1: "cp"}, {K: "d", Data: []byte("first-chunk")}}
	}
	msgs = append(msgs, over)
	msgs = append(msgs, pgwire.FMsg{K: "c"}, pgwire.FMsg{K: "Q", S1: probeKey})
	c.Conns = []ConnCase{{Steps: []Step{{Msgs: []pgwire.FMsg{{K: "startup", KV: [][2]string{{"user", "u"}}}}}, {Msgs: msgs}}, Cuts: genCuts(r)}}
	return c
}

func checkC10(x *Exec, c *Case) ([]Violation, bool) {
	r := x.Run(c)
	var viol []Violation
	nt := false
	add := func(rule, sig, detail string) {
		viol = append(viol, Violation{Prop: "C10", Rule: rule, Sig: sig, Detail: detail})
	}
	eff := c.Server.Limit
	if eff <= 0 {
		eff = 1 << 24
	}
	for i, cs := range r.Conns {
		t := ParseOut(cs)
		viol = append(viol, GrammarViolation("C10", i, t)...)
		viol = append(viol, connEnded("C10", i, cs)...)
		if t.Grammar != nil {
			continue
		}
		kinds := pgwire.Kinds(t.Msgs)
		// no callback may ever see a byte of a skipped body
		for _, e := range cs.Events {
			if (e.K == "parse" || e.K == "stmt") && strings.Contains(e.S, "INJECTED") {
				add("skipped-body-executed", "skipped body executed", fmt.Sprintf("conn %d: bytes of an oversized (skipped) message body were interpreted as protocol messages: callback %q", i, e.K+" "+e.S))
			}
		}
		// the read window never holds more than the limit (or the 4 KiB granule)
		// at once: an oversized body is skipped in pieces, not buffered
		if cs.reader != nil {
			cs.checkRetained("end of connection")
			bound := eff
			if bound < 4096 {
				bound = 4096
			}
			for _, cp := range cs.CapSeen {
				if cp > bound {
					add("skipped-body-buffered", "skipped body buffered", fmt.Sprintf("conn %d: the connection's read window grew to %d bytes with limit %d (an oversized body was read into one block instead of being skipped in pieces of at most the limit)", i, cp, eff))
					break
				}
			}
		}
		// allocation bound per step
		if cs.cc.Measure {
			bound := uint64(4*eff + 16<<20)
			for k, a := range cs.Alloc {
				if k == 0 {
					continue
				}
				if a > bound {
					add("allocation-exceeds-limit", "allocation", fmt.Sprintf("conn %d: processing one step allocated %d bytes with limit %d (bound %d)", i, a, eff, bound))
				}
			}
		}
		switch c.Variant {
		case "silent-oversized-startup", "silent-oversized-password":
			// the peer declared an oversized startup packet / password message and
			// then stays silent: the connection is ended, nobody waits for the body
			nt = true
			if cs.Started && cs.ClosedBefore == 0 {
				add("oversized-before-session-not-ended", "oversized "+c.Variant, fmt.Sprintf("conn %d: the peer declared a %s of %s bytes with limit %d and went silent; the server keeps waiting for the body instead of ending the connection (output %q)", i, strings.TrimPrefix(c.Variant, "silent-oversized-"), fmt.Sprint(c.Expect["declared"]), eff, kinds))
			}
			if countKind(cs, "parse")+countKind(cs, "stmt")+countKind(cs, "validator") > 0 {
				add("callback-for-oversized-startup", "oversized callback "+c.Variant, fmt.Sprintf("conn %d: a callback ran", i))
			}
		case "subminimum", "subminimum-startup":
			nt = true
			// an ErrorResponse or connection end, no callback, nothing else
			if countKind(cs, "parse")+countKind(cs, "stmt") > 0 {
				add("callback-for-undersized-length", "subminimum callback", fmt.Sprintf("conn %d: a message declaring a length below 4 reached a callback", i))
			}
			tail := kinds
			if zi := strings.IndexByte(kinds, 'Z'); zi >= 0 && c.Variant == "subminimum" {
				tail = kinds[zi+1:]
			}
			if strings.Trim(tail, "EZ") != "" || strings.Count(tail, "E") > 1 {
				add("undersized-length-reply", "subminimum reply "+tail, fmt.Sprintf("conn %d: a declared length below 4 was answered with %q (want an ErrorResponse or connection end)", i, tail))
			}
		case "subminimum-then-oversized":
			nt = true
			// either the server gave the connection up at a too-short header
			// (only ErrorResponses so far, input left unread), or it went on: then
			// every later message is handled as if the headers had never been
			// there - the oversized body skipped in full, the probe answered
			zi := strings.IndexByte(kinds, 'Z')
			if zi < 0 {
				break
			}
			tail := kinds[zi+1:]
			sawEOF := false
			for _, e := range cs.Events {
				if e.K == "read" && e.S == "eof" {
					sawEOF = true
				}
			}
			if strings.Trim(tail, "EZC") != "" {
				add("undersized-length-reply", "subminimum-then-oversized kinds", fmt.Sprintf("conn %d: unexpected messages after headers with a declared length below 4: %q", i, tail))
			} else if sawEOF && !(strings.HasSuffix(kinds, "CZ") && t.Msgs[len(t.Msgs)-2].Tag == "PROBE OK") {
				add("no-recovery-after-undersized-length", "subminimum-then-oversized no recovery", fmt.Sprintf("conn %d: the server read its input to the end, but the query behind the oversized message (which followed headers declaring a length below 4) was not answered normally: %q", i, kinds))
			}
		case "truncated":
			nt = true
			// the declared body never arrives: nothing may be executed for it
			// (allocation bound above is the main oracle); whatever the declared
			// length, the oversized message is answered - if at all before its body
			// ends - with the non-fatal 54000, never with another error
			for _, m := range t.Msgs {
				if m.Type == 'E' && (m.Fields['S'] == "FATAL" || m.Fields['S'] == "PANIC" || strings.HasPrefix(m.Fields['C'], "08")) {
					add("oversized-answered-fatally", "oversized fatal", fmt.Sprintf("conn %d: an oversized message was answered with severity %s, SQLSTATE %s (want the non-fatal 54000, whatever length it declares): %q", i, m.Fields['S'], m.Fields['C'], kinds))
					break
				}
			}
		case "transient-read-timeout":
			ref := c.Clone()
			ref.Conns[i].Faults = nil
			rr := x.Run(ref)
			rt := ParseOut(rr.Conns[i])
			if rt.Grammar != nil || cs.FaultFired["read-timeout"] == 0 {
				break
			}
			nt = true
			if ok, _, detail := afterTimeoutVerdict(rr.Conns[i], cs); !ok {
				add("diverges-after-read-timeout", "diverges-after-read-timeout", fmt.Sprintf("conn %d: one read reported a timeout (no byte lost): %s", i, detail))
			}
		case "copy-truncated":
			nt = true
			// the stream never ended: no end-of-stream for the handler, no
			// successful completion of the COPY
			for _, e := range cs.Events {
				if e.K == "op" && strings.HasSuffix(e.S, "copyread eof") {
					add("copy-truncated-reported-as-complete", "copy truncated eof", fmt.Sprintf("conn %d: the peer went away inside an oversized message of a COPY stream and the handler was told the stream had ended (CopyDone was never sent): %q", i, kinds))
				}
			}
		case "copy-cancelled":
			nt = true // (judged by the rules above: grammar, no byte of the skipped body reaches a callback)
		case "copy":
			nt = true
			ne := 0
			for _, m := range t.Msgs {
				if m.Type == 'E' && strings.HasPrefix(m.Fields['C'], "54000") {
					ne++
				}
			}
			if ne != 1 {
				add("copy-oversized-error-count", fmt.Sprintf("copy E54000=%d", ne), fmt.Sprintf("conn %d: an oversized CopyData inside COPY was answered with %d ErrorResponse(54000) (want exactly one): %q", i, ne, kinds))
			}
			if !strings.HasSuffix(kinds, "CZ") || t.Msgs[len(t.Msgs)-2].Tag != "PROBE OK" {
				add("copy-oversized-no-recovery", "copy no recovery", fmt.Sprintf("conn %d: after an oversized CopyData the following query was not answered normally: %q", i, kinds))
			}
		default:
			model := NewModel(c)
			model.LenientZ = true
			mr := MatchConnModel(model, c, cs, t)
			if !mr.OK {
				add(mr.Rule, mr.Sig, fmt.Sprintf("conn %d: %s", i, mr.Detail))
			}
			if strings.Contains(kinds, "E") || c.Variant == "grid" {
				nt = true
			}
		}
	}
	if !r.ServeReturned || r.ServeErr != "" {
		add("serve-return", "serve-return", fmt.Sprintf("Serve returned=%v err=%q", r.ServeReturned, r.ServeErr))
	}
	return viol, nt
}

func init() {
	register(&Prop{
		ID: "C10", Level: "exploration", QuickS: 25, ThoroughS: 420,
		Rule:       "enumerated boundary grid (limits {5,16,64,100,1000,4095,4096,4097,65536} x message types {Q,P,B,D,E,C,H,S,X,d,c,f,unknown} x declared body {L-1,L,L+1} x position {first, after a simple cycle, inside a pipelined extended batch, while discarding after a failed extended message}; startup packets and password messages of body {L-1,L,L+1,2L}; declared lengths 0-3 for five message types and the startup packet) plus seeded cases (the same dimensions with bodies 2L, 2L+1, 64 MiB, 2^31-5, 2^32-5, fully supplied by a synthetic pattern that spells valid protocol messages or cut short, default limit for a small share, arbitrary segmentation of the skipped body, oversized CopyData / CopyFail / foreign messages inside COPY mode); judged by the size-rule model (the ReadyForQuery after the 54000 error is optional here), 'no callback sees a byte of a skipped body', a per-step allocation bound of 4L+16MiB measured from runtime/metrics, and recovery of the following message; oversized messages delivered in two flights (header and part of the body first: nothing is answered before the message has been skipped in full); one read of the exchange reports a transient timeout (no byte lost): compared with the undisturbed run - identical if the server carries on, a prefix if it gives the connection up; inside COPY also: the peer going away inside the oversized body (the handler is never told the stream ended) and the session context ending right before the oversized message (its body is still skipped, never parsed); headers declaring a length below 4 followed by an oversized message and a probe (either the connection is given up there, or everything behind is handled as if the headers had never been sent); a third of the seeded cases put legal traffic in front of the sized message that leaves the read window in another state (one legal message of 4096 / 4097 / 5000 / L-1 / L bytes, parsed or - a stray CopyData, a large chunk inside COPY - never consumed; runs of small queries whose bodies add up to totals around 4096 and 8192); non-trivial = the case contains a message at or beyond the boundary; distinct = distinct case content hashes",
		Exhaustive: "the boundary grid listed in the rule is enumerated completely in both tiers",
		Components: e1Components, Assumptions: commonAssumptions,
		Fixed: c10Fixed,
		Gen:   genC10,
		Check: checkC10,
	})
}

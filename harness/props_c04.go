package harness

import (
	"encoding/binary"
	"fmt"
	"strings"

	"verif/pgwire"
)

// bystander is the known-good probe session accepted on the same Server value
// after the hostile connection.
func bystander() ConnCase {
	return ConnCase{Steps: []Step{{Msgs: []pgwire.FMsg{startupMsg("probe", "db")}}, {Msgs: []pgwire.FMsg{{K: "Q", S1: probeKey}, {K: "X"}}}}}
}

func withBystander(c *Case) *Case {
	if c.Programs == nil {
		c.Programs = map[string]*Program{}
	}
	c.Programs[probeKey] = probeProgram()
	if c.Server.Auth == "cleartext" {
		// the bystander authenticates too
		b := bystander()
		c.Server.Validator = append(c.Server.Validator, AuthEntry{DB: "db", User: "probe", PW: "probe-pw", Out: "accept"})
		b.Steps = []Step{b.Steps[0], {Msgs: []pgwire.FMsg{{K: "p", S1: "probe-pw"}}}, b.Steps[1]}
		c.Conns = append(c.Conns, b)
		return c
	}
	c.Conns = append(c.Conns, bystander())
	return c
}

// c04Corpus is the fixed corpus of sessions whose every fault position is
// enumerated: sessions of every phase drawn from the shared generators with
// fixed seeds, plus handcrafted negotiation sessions.
func c04Corpus() []*Case {
	var out []*Case
	for i := 0; i < 34; i++ {
		r := NewRand(Mix(4040, "corpus", uint64(i)))
		c := &Case{Server: ServerCfg{Limit: r.PickInt(256, 1000, 4096)}}
		if i%5 == 0 {
			c.Server.Auth = "cleartext"
		}
		if i%7 == 0 {
			c.Server.MW = []MWSpec{{}, {}}
			c.Server.Term = "ok"
		}
		o := histOpts{simple: true, extended: i%2 == 0, copy: i%3 == 0, errs: true, abuse: true, unknown: i%4 == 0, oversized: i%6 == 0, stray: true, params: true, binary: true, closes: true, multi: true, terminate: true, maxUnits: 4}
		genHistory(r, c, o)
		c.Conns[0].Cuts = nil
		out = append(out, c)
	}
	// SSLRequest declined then plaintext; cancel; binary COPY through the row reader
	c := &Case{Server: ServerCfg{Limit: 4096, TLS: "empty"}, Programs: map[string]*Program{}}
	c.Conns = []ConnCase{{Steps: []Step{{Msgs: []pgwire.FMsg{{K: "ssl"}}}, {Msgs: []pgwire.FMsg{startupMsg("u", "d")}}, {Msgs: []pgwire.FMsg{{K: "Q", S1: "anything $1 ?"}}}}}}
	out = append(out, c)
	c = &Case{Server: ServerCfg{Limit: 4096}, Programs: map[string]*Program{}}
	c.Conns = []ConnCase{{Steps: []Step{{Msgs: []pgwire.FMsg{{K: "cancel"}}}}}}
	out = append(out, c)
	for _, trailer := range []bool{true, false} {
		r := NewRand(99)
		cols, rows, want := c14Table(r, 3, 3, baseOIDs)
		stream := pgwire.EncodeBinaryCopy(rows, trailer)
		cc := c14Case(cols, stream, []int{7, 20, 9}, want, "eof", "corpus")
		cc.Expect = nil
		cc.Variant = ""
		out = append(out, cc)
	}
	for _, c := range out {
		c.Variant = "enum"
		withBystander(c)
	}
	return out
}

// mutateField applies one field-level malformation to a message.
func mutateMsg(r *Rand, m *pgwire.FMsg, limit int) {
	switch r.Intn(10) {
	case 0:
		m.DeclLen = u32p(uint32(r.PickInt(0, 1, 2, 3, limit+4, limit+5, 0x7fffffff, 0xffffffff)))
	case 1:
		m.Cut = intp(r.Range(0, 12))
	case 2:
		m.NoNul = true
	case 3:
		if m.CountOverride == nil {
			m.CountOverride = map[string]int{}
		}
		m.CountOverride[r.Pick("oids", "pfmt", "params", "rfmt")] = r.PickInt(0xFFFF, 0x7FFF, 1, 255, 0x8000, 0x8001, 0x8002, 0xC000, 0x5556, 0x4000)
	case 4:
		if m.K == "B" && r.Bool() {
			// format codes that are neither 0 nor 1 (for the results, the
			// parameters, or both): whatever the type library makes of them when a
			// row is encoded or a parameter scanned, the process survives
			g := []int16{int16(r.PickInt(2, 0x722d, -1, 0x7fff, 256, -32768))}
			if r.Bool() {
				m.RFmt = g
			} else {
				m.PFmt = g
			}
			if r.Chance(1, 3) {
				m.RFmt, m.PFmt = g, g
			}
			break
		}
		m.Tail = r.Bytes(r.Range(1, 40))
	case 5:
		// a Bind value whose length word points beyond the body
		if m.K == "B" && len(m.Params) > 0 {
			body := m.Body()
			// find first param length word: after two cstrings, pfmt block, count
			off := len(m.S1) + 1 + len(m.S2) + 1 + 2 + 2*len(m.PFmt) + 2
			if off+4 <= len(body) {
				binary.BigEndian.PutUint32(body[off:], uint32(r.PickInt(len(body), 1<<20, 0x7fffffff, 0xfffffffe)))
				*m = pgwire.FMsg{K: "typed", T: 'B', Data: body}
			}
		}
	case 6:
		*m = pgwire.FMsg{K: "typed", T: byte(r.Intn(256)), Data: r.Bytes(r.Intn(20))}
		if r.Chance(1, 3) {
			*m = oddTarget(r)
		}
	case 7:
		m.Pad = int64(r.PickInt(1, limit, 1<<20))
		m.DeclLen = u32p(uint32(r.PickInt(1<<30, 1<<31-1, 0xfffffff0)))
	case 8:
		m.S1 = r.Pick("select $5", "select $0", "$99999999999999999999", "$65536 $1", strings.Repeat("?", 300), "$1$2$3 $3 $2", "x $-1 $ $$ $9")
	case 9:
		// a hostile text: long runs of UTF-8 continuation bytes, of lead bytes
		// without continuation, of 0xFF, format verbs - as query text or as a
		// Bind parameter value
		h := strings.Repeat(r.Pick("\x80", "\xbf", "\xc3", "\xf0\x9f", "\xff", "%s%n%x", "\xe2\x82"), r.PickInt(600, 1025, 1026, 3000))
		switch m.K {
		case "Q":
			m.S1 = h
		case "P":
			m.S2 = h
		case "B":
			if len(m.Params) > 0 {
				m.Params[r.Intn(len(m.Params))] = pgwire.Param{V: []byte(h)}
			} else {
				m.Params = []pgwire.Param{{V: []byte(h)}}
			}
		default:
			*m = pgwire.FMsg{K: "Q", S1: h}
		}
	}
}

func genC04(r *Rand, tier string) *Case {
	limit := r.PickInt(64, 256, 1000, 4096, 65536)
	c := &Case{Server: ServerCfg{Limit: limit}, Programs: map[string]*Program{}}
	if r.Chance(1, 5) {
		c.Server.Auth = "cleartext"
	}
	if r.Chance(1, 6) {
		c.Server.TLS = "empty"
	}
	kind := r.Intn(10)
	if r.Chance(1, 60) {
		// long names: a statement is defined under a 3-12 KiB name, then messages
		// refer to other long names that do not exist (whatever the server computes
		// about them stays within a constant factor of the limit)
		lim := r.PickInt(16384, 65536)
		c := &Case{Variant: "long-names", Server: ServerCfg{Limit: lim}, Programs: map[string]*Program{"ln": {Stmts: []*StmtProg{{Ops: []Op{{K: "complete", Tag: "OK"}}}}}}}
		n := r.PickInt(3000, 6000, 12000)
		a, b := strings.Repeat("a", n), strings.Repeat("b", n-1)+"c"
		msgs := []pgwire.FMsg{{K: "P", S1: a, S2: "ln"}, {K: "S"}, {K: "B", S1: b, S2: b}, {K: "S"}, {K: "D", Sub: 'S', S1: b}, {K: "E", S1: b}, {K: "C", Sub: 'S', S1: b}, {K: "S"}}
		var steps []Step
		steps = append(steps, Step{Msgs: []pgwire.FMsg{startupMsg("u", "d")}})
		for i := range msgs {
			steps = append(steps, Step{Msgs: msgs[i : i+1]})
		}
		c.Conns = []ConnCase{{Steps: steps, Measure: true}}
		return withBystander(c)
	}
	if r.Chance(1, 80) {
		return c04LargeTruncated(r)
	}
	if r.Chance(1, 500) {
		return c04CopyRows(int64(r.PickInt(50000, 120000)), r.PickInt(4096, 65536))
	}
	if r.Chance(1, 400) {
		return c04Churn(r, r.PickInt(70, 130, 260, 1100), r.Pick("cancel", "ssl-cancel", "junk", "eof", "cut-startup", "mixed"))
	}
	if r.Chance(1, 300) {
		// (only message types that are silent in that phase: the harness keeps
		// every output byte and write event, which would count as growth)
		phase := r.Pick("copy", "ready", "discard")
		t := map[string]string{"copy": "HS", "ready": "H", "discard": "HEPBDC"}[phase]
		return c04Flood(phase, t[r.Intn(len(t))], int64(r.PickInt(250000, 400000, 1000000)), limit)
	}
	switch {
	case kind == 0 && r.Chance(1, 4): // TLS negotiation broken off by the peer
		// a server with certificates answers 'S'; the peer then sends a TLS alert
		// (a client that rejects the certificate), a record of another kind, a
		// truncated ClientHello or junk instead of completing the handshake
		c.Server.TLS = "certs"
		c.Server.Auth = ""
		c.Server.Validator = nil
		var rec []byte
		switch r.Intn(5) {
		case 0:
			rec = []byte{0x15, 0x03, 0x01, 0x00, 0x02, 0x02, byte(r.PickInt(0x2a, 0x30, 0x28, 0x46, 0x00))} // fatal alert
		case 1:
			rec = []byte{0x15, 0x03, 0x03, 0x00, 0x02, 0x01, 0x00} // warning: close_notify
		case 2:
			rec = append([]byte{0x16, 0x03, 0x01, 0x00, byte(r.PickInt(5, 40, 200)), 0x01}, r.Bytes(r.PickInt(0, 3, 30))...) // truncated ClientHello
		case 3:
			rec = append([]byte{byte(r.PickInt(0x14, 0x17, 0x18, 0x80)), 0x03, byte(r.Intn(5)), 0x00, 0x03}, r.Bytes(3)...)
		case 4:
			rec = r.Bytes(r.PickInt(1, 5, 6, 50))
		}
		c.Conns = []ConnCase{{Steps: []Step{{Msgs: []pgwire.FMsg{{K: "ssl"}}}, {Msgs: []pgwire.FMsg{{K: "raw", Data: rec}}}}, Cuts: genCuts(r)}}
		c.Variant = "tls-negotiation-broken"
	case kind == 0: // random bytes on a fresh connection
		c.Conns = []ConnCase{{Steps: []Step{{Msgs: []pgwire.FMsg{{K: "raw", Data: r.Bytes(r.PickInt(1, 4, 8, 9, 30, 200))}}}}, Cuts: genCuts(r)}}
		c.Variant = "raw-fresh"
	case kind == 1: // structured startup-phase packets with perturbed lengths
		first := pgwire.FMsg{K: r.Pick("startup", "ssl", "cancel", "gss")}
		if first.K == "startup" {
			first.KV = genStartupKV(r, "u", "d")
			first.Proto = uint32(r.PickInt(pgwire.ProtoV3, 0, 196609, 131072, 0x12345678))
		}
		mutateMsg(r, &first, limit)
		steps := []Step{{Msgs: []pgwire.FMsg{first}}}
		if r.Bool() {
			steps = append(steps, Step{Msgs: []pgwire.FMsg{startupMsg("u", "d"), {K: "Q", S1: "after"}}})
		}
		c.Conns = []ConnCase{{Steps: steps, Cuts: genCuts(r), Measure: true}}
		c.Variant = "startup-mutated"
	case kind == 2: // random bytes after a valid startup
		c.Conns = []ConnCase{{Steps: []Step{{Msgs: []pgwire.FMsg{startupMsg("u", "d")}}, {Msgs: []pgwire.FMsg{{K: "raw", Data: r.Bytes(r.PickInt(1, 5, 6, 30, 300))}}}}, Cuts: genCuts(r), Measure: true}}
		c.Server.Auth = ""
		c.Variant = "raw-session"
	case kind <= 6: // a generated session with one mutated message
		genHistory(r, c, histOpts{simple: true, extended: true, copy: r.Chance(1, 3), errs: true, abuse: true, params: true, binary: true, closes: true, stray: true, maxUnits: 5})
		cc := &c.Conns[0]
		cc.Measure = true
		if len(cc.Steps) > 1 {
			si := r.Range(1, len(cc.Steps)-1)
			mi := r.Intn(len(cc.Steps[si].Msgs))
			mutateMsg(r, &cc.Steps[si].Msgs[mi], limit)
		}
		c.Variant = "session-mutated"
	case kind == 7 && r.Chance(1, 3): // messages around and beyond the size limit behind legal traffic of every size (the C10 generator)
		cc := genC10(r, tier)
		for len(cc.Conns) > 1 {
			cc.Conns = cc.Conns[:1]
		}
		if len(cc.Conns[0].Faults) > 0 || cc.Server.Limit <= 0 {
			cc, _ = c10Case(4096, 'Q', 4097, 1, false, nil)
		}
		if cc.Programs == nil {
			cc.Programs = map[string]*Program{}
		}
		truncated := cc.Variant == "copy-truncated"
		cc.Expect = nil
		if truncated {
			cc.Expect = map[string]any{"copy_truncated": true}
		}
		cc.Variant = "sized-messages"
		c = cc
	case kind == 7: // corrupted binary COPY rows through the documented row reader
		cc := genC14(r, tier)
		cc.Expect = nil
		cc.Variant = "copy-rows"
		c = cc
	case kind == 8: // a stalled peer: the hostile connection stops in the middle of a message and stays open while others are served (E2)
		genHistory(r, c, histOpts{simple: true, extended: true, errs: true, params: true, maxUnits: 3})
		cc := &c.Conns[0]
		stall := pgwire.FMsg{K: r.Pick("Q", "P", "B", "d"), S1: "never-finished", S2: "x", Data: []byte("zzzz"), Cut: intp(r.Range(1, 7))}
		cc.Steps = append(cc.Steps, Step{Msgs: []pgwire.FMsg{stall}})
		if r.Chance(1, 3) {
			// the peer stalls before its startup is complete: silent from the start,
			// a partial length word or packet, silence after a declined SSLRequest
			su := startupMsg("u", "d")
			switch r.Intn(5) {
			case 0:
				cc.Steps = nil
			case 1:
				su.Cut = intp(r.Range(1, 9))
				cc.Steps = []Step{{Msgs: []pgwire.FMsg{su}}}
			case 2:
				cc.Steps = []Step{{Msgs: []pgwire.FMsg{{K: "ssl"}}}}
			case 3:
				su.Cut = intp(r.Range(1, 9))
				cc.Steps = []Step{{Msgs: []pgwire.FMsg{{K: "ssl"}}}, {Msgs: []pgwire.FMsg{su}}}
			case 4:
				cc.Steps = []Step{{Msgs: []pgwire.FMsg{{K: "ssl", Cut: intp(r.Range(1, 7))}}}}
			}
		}
		cc.NoEOF = true
		cc.Cuts = nil
		c.Variant = "stalled-peer"
		c.Sched = &SchedCase{Strategy: r.Pick("uniform", "pct"), Depth: 2, MaxSteps: 100000}
	default: // a generated session with seeded transport faults
		genHistory(r, c, histOpts{simple: true, extended: true, copy: r.Chance(1, 3), errs: true, params: true, maxUnits: 5})
		cc := &c.Conns[0]
		for n := r.Range(1, 2); n > 0; n-- {
			switch r.Intn(4) {
			case 0:
				cc.Faults = append(cc.Faults, Fault{Kind: "read-err", At: r.Intn(30)})
			case 1:
				cc.Faults = append(cc.Faults, Fault{Kind: "eof-at-byte", At: r.Intn(400)})
			case 2:
				cc.Faults = append(cc.Faults, Fault{Kind: "write-err", At: r.Intn(25), Bytes: r.PickInt(0, 1, 3, 5, 1000)})
			case 3:
				cc.Faults = append(cc.Faults, Fault{Kind: "empty-read", At: r.Intn(10)})
			}
		}
		c.Variant = "seeded-faults"
	}
	return withBystander(c)
}

// c04LargeTruncated: a message of 64 KiB - 400 KB (within the limit) whose
// declared length is never delivered in full - its declared length exceeds
// what is sent, or the stream ends inside surplus bytes behind the fields -
// although every field of it has arrived. Nothing may be executed for it.
func c04LargeTruncated(r *Rand) *Case {
	c := &Case{Variant: "malformed-last", Server: ServerCfg{Limit: r.PickInt(1<<18, 1<<20, 1<<20, 0)}, Programs: map[string]*Program{}, Expect: map[string]any{"malformed_last": true}}
	c.Programs["s"] = &Program{Stmts: []*StmtProg{{Params: []uint32{25, 25}, Cols: []ColSpec{{Name: "a", OID: 25}}, Ops: []Op{{K: "params"}, {K: "row", Row: []Val{{G: "string", S: "x"}}}, {K: "complete", Tag: "SELECT 1"}}}}}
	n := r.PickInt(65531, 65537, 66000, 70000, 131072, 200000)
	var last pgwire.FMsg
	var pre []pgwire.FMsg
	if r.Bool() {
		last = pgwire.FMsg{K: "Q", S1: "s " + strings.Repeat("x", n)}
	} else {
		pre = []pgwire.FMsg{{K: "P", S1: "", S2: "s"}}
		last = pgwire.FMsg{K: "B", Params: []pgwire.Param{{V: []byte(strings.Repeat("v", n))}, {V: []byte("two")}}}
		if r.Bool() {
			pre = append(pre, last, pgwire.FMsg{K: "E"})
			last = pgwire.FMsg{K: "E", Tail: make([]byte, n)}
		}
	}
	if r.Bool() {
		// the declared length promises more than is ever sent
		real := len(last.Bytes()) - 1 // (type byte excluded; surplus bytes included)
		last.DeclLen = u32p(uint32(real + r.PickInt(1, 2, 100, 70000)))
	} else {
		// surplus bytes behind the fields, and the stream ends inside them
		last.Tail = append(last.Tail, make([]byte, r.PickInt(1, 100, 70000))...)
		last.Cut = intp(len(last.Bytes()) - r.PickInt(1, 1, 2, 50))
	}
	steps := []Step{{Msgs: []pgwire.FMsg{startupMsg("u", "d")}}}
	if len(pre) > 0 {
		steps = append(steps, Step{Msgs: pre})
	}
	steps = append(steps, Step{Msgs: []pgwire.FMsg{last}})
	cc := ConnCase{Steps: steps, Measure: true}
	if r.Bool() {
		cc.Cuts = []int{r.PickInt(4096, 1000, 65536, 100000)}
	}
	c.Conns = []ConnCase{cc}
	return withBystander(c)
}

// c04Judge applies the safety oracles to one run. base, when given, is the
// fault-free run of the same case: a connection whose transport broke may
// only have done a prefix of what the fault-free one did.
func c04Judge(c *Case, r *Result, base *Result) []Violation {
	var viol []Violation
	add := func(rule, sig, detail string) {
		viol = append(viol, Violation{Prop: "C04", Rule: rule, Sig: sig, Detail: detail})
	}
	if r.BuildErr != "" {
		return viol
	}
	eff := c.Server.Limit
	if eff <= 0 {
		eff = 1 << 24
	}
	nb := len(r.Conns) - 1 // bystander index
	for i, cs := range r.Conns {
		t := ParseOut(cs)
		viol = append(viol, GrammarViolation("C04", i, t)...)
		for _, v := range connEnded("C04", i, cs) {
			viol = append(viol, v)
		}
		if i == nb {
			// S3: the bystander is served exactly as the model says
			if !cs.Started {
				add("bystander-not-accepted", "bystander-not-accepted", "the connection accepted after the hostile one was never served")
				continue
			}
			if t.Grammar == nil {
				mr := MatchConn(c, cs, t)
				if !mr.OK {
					add("bystander-"+mr.Rule, "bystander "+mr.Sig, fmt.Sprintf("bystander connection: %s", mr.Detail))
				}
			}
			continue
		}
		// S4: allocation per step
		if cs.cc.Measure {
			bound := uint64(4*eff + 16<<20)
			for k, a := range cs.Alloc {
				if k > 0 && a > bound {
					add("allocation-exceeds-limit", "allocation", fmt.Sprintf("conn %d: one step allocated %d bytes with limit %d (bound %d)", i, a, eff, bound))
				}
			}
		}
		// S4b: a long run of small messages grows neither the stacks nor the live heap
		if cs.cc.MeasureLive && len(cs.LiveStack) > 1 {
			const slack = 8 << 20
			var maxStack, maxHeap uint64
			for k := range cs.LiveStack {
				if cs.LiveStack[k] > maxStack {
					maxStack = cs.LiveStack[k]
				}
				if cs.LiveHeap[k] > maxHeap {
					maxHeap = cs.LiveHeap[k]
				}
			}
			if g := maxStack - cs.LiveStack[0]; maxStack > cs.LiveStack[0] && g > slack {
				add("stack-grows-with-message-count", "stack-growth", fmt.Sprintf("conn %d: goroutine stacks grew by %d bytes while a run of small messages was served (bound %d)", i, g, slack))
			}
			if g := maxHeap - cs.LiveHeap[0]; maxHeap > cs.LiveHeap[0] && g > slack+uint64(4*eff) {
				add("live-heap-grows-with-message-count", "heap-growth", fmt.Sprintf("conn %d: live heap grew by %d bytes while a run of small messages was served (bound %d)", i, g, slack+4*eff))
			}
		}
		// S5: a broken connection does a prefix of what the intact one does
		if base != nil && len(cs.cc.Faults) > 0 && i < len(base.Conns) {
			bt := invocationTrace(base.Conns[i])
			ft := invocationTrace(cs)
			// (a handler that reads client input itself - COPY - consumes the
			// messages behind it in the intact run; when the fault keeps it from
			// starting the COPY, those messages are ordinary messages and are
			// rightly handled as such: found by a 5.9 million-run thorough batch)
			readsInput := false
			for _, p := range c.Programs {
				for _, sp := range p.Stmts {
					for _, op := range sp.Ops {
						if op.K == "copyin" {
							readsInput = true
						}
					}
				}
			}
			if !strings.HasPrefix(bt, ft) && !readsInput {
				add("fabricated-callback", "fabricated-callback "+cs.cc.Faults[0].Kind, fmt.Sprintf("conn %d with fault %+v ran callbacks the fault-free session never ran:\n  faulted: %s\n  intact:  %s", i, cs.cc.Faults[0], trunc(strings.ReplaceAll(ft, "\n", "; "), 300), trunc(strings.ReplaceAll(bt, "\n", "; "), 300)))
			}
			inputOnly := true
			for _, f := range cs.cc.Faults {
				if f.Kind != "eof-at-byte" && f.Kind != "read-err" && f.Kind != "empty-read" {
					inputOnly = false
				}
			}
			// (handlers that read client input themselves - COPY - legitimately
			// observe, and answer, something else when the input is cut)
			for _, p := range c.Programs {
				for _, sp := range p.Stmts {
					for _, op := range sp.Ops {
						if op.K == "copyin" {
							inputOnly = false
						}
					}
				}
			}
			if k := cs.cc.Faults[0].Kind; inputOnly && t.Grammar == nil {
				bc := pgwire.Kinds(ParseOut(base.Conns[i]).Msgs)
				fc := pgwire.Kinds(t.Msgs)
				if !strings.HasPrefix(bc, fc) {
					add("output-not-prefix", "output-not-prefix "+k, fmt.Sprintf("conn %d with fault %+v sent output the fault-free session never sent: %q vs %q", i, cs.cc.Faults[0], pgwire.Kinds(t.Msgs), pgwire.Kinds(ParseOut(base.Conns[i]).Msgs)))
				}
			}
		}
		// S5'': a COPY stream cut off inside a message is not a stream that ended:
		// the handler is never handed the end-of-stream signal of CopyDone
		if v, _ := c.Expect["copy_truncated"].(bool); v {
			for _, e := range cs.Events {
				if e.K == "op" && strings.HasSuffix(e.S, "copyread eof") {
					add("truncated-copy-stream-reported-as-complete", "truncated-copy-stream-reported-as-complete", fmt.Sprintf("conn %d: the peer went away inside a message of a COPY stream (CopyDone was never sent) and the handler was told that the stream had ended", i))
					break
				}
			}
		}
		// S5': nothing may be executed for a message that is certainly malformed
		if v, _ := c.Expect["malformed_last"].(bool); v {
			if what := executedAfterLastFlight(cs); what != "" {
				add("malformed-message-executed", "malformed-message-executed", fmt.Sprintf("conn %d: a truncated/inconsistent message reached a callback: %s", i, what))
			}
		}
	}
	if !r.ServeReturned || r.ServeErr != "" {
		add("serve-return", "serve-return", fmt.Sprintf("Serve returned=%v err=%q after Close (accept loop must survive hostile connections)", r.ServeReturned, r.ServeErr))
	}
	if r.Accepts != len(r.Conns) {
		add("accept-loop-stopped", "accept-loop-stopped", fmt.Sprintf("only %d of %d connections were accepted", r.Accepts, len(r.Conns)))
	}
	return viol
}

// executedAfterLastFlight names the first parser / statement / result-writer
// event that happened after the client's last flight was fed ("" if none).
func executedAfterLastFlight(cs *connState) string {
	var fedSeq int64 = -1
	for _, e := range cs.Events {
		if e.K == "quiesce" && strings.HasSuffix(e.S, fmt.Sprintf("step=%d", len(cs.cc.Steps))) && fedSeq < 0 {
			fedSeq = e.Seq
		}
	}
	for _, e := range cs.Events {
		if fedSeq >= 0 && e.Seq > fedSeq && (e.K == "stmt" || e.K == "parse" || e.K == "op") {
			return e.K + " " + trunc(e.S, 100)
		}
	}
	return ""
}

// invocationTrace lists which callbacks were invoked with which arguments
// (not what they observed while running: under a transport fault a handler
// legitimately sees failing writes and reads).
func invocationTrace(cs *connState) string {
	var sb strings.Builder
	for _, e := range cs.Events {
		switch e.K {
		case "parse", "stmt", "validator", "mw", "terminate":
			sb.WriteString(e.K + " " + e.S + "\n")
		}
	}
	return sb.String()
}

func checkC04(x *Exec, c *Case) ([]Violation, bool) {
	if c.Variant == "stalled-peer" {
		r := x.Run(c)
		c.Sched.Schedule = r.Schedule
		var viol []Violation
		if r.Outcome == RunBudget {
			return nil, false
		}
		nb := len(r.Conns) - 1
		bs := r.Conns[nb]
		t := ParseOut(bs)
		viol = append(viol, GrammarViolation("C04", nb, t)...)
		if bs.Closed == 0 || r.Outcome == RunLockDead {
			viol = append(viol, Violation{Prop: "C04", Rule: "bystander-starved", Sig: "bystander-starved", Detail: fmt.Sprintf("a peer that stopped in the middle of a message keeps another connection from being served: outcome=%d parked=%v", r.Outcome, r.Stuck)})
		} else if t.Grammar == nil {
			if mr := MatchConn(c, bs, t); !mr.OK {
				viol = append(viol, Violation{Prop: "C04", Rule: "bystander-" + mr.Rule, Sig: "bystander " + mr.Sig, Detail: "bystander connection next to a stalled peer: " + mr.Detail})
			}
		}
		x.Probe("stalled_peer_with_concurrent_bystander")
		return viol, true
	}
	if c.Variant != "enum" {
		r := x.Run(c)
		var base *Result
		if len(c.Conns[0].Faults) > 0 {
			bc := c.Clone()
			bc.Conns[0].Faults = nil
			base = x.Run(bc)
		}
		return c04Judge(c, r, base), true
	}
	// fault enumeration over one corpus session
	base := x.Run(c)
	viol := c04Judge(c, base, nil)
	if len(viol) > 0 {
		return viol, true
	}
	hc := base.Conns[0]
	nreads, nwrites, nbytes := hc.reads, hc.writes, int(hc.inBytes)
	try := func(f Fault) bool {
		v := c.Clone()
		v.Variant = "enum-instance"
		v.Conns[0].Faults = []Fault{f}
		r := x.Run(v)
		if vs := c04Judge(v, r, base); len(vs) > 0 {
			// hand the concrete failing instance to the report
			*c = *v
			viol = vs
			return false
		}
		return true
	}
	for k := 0; k < nreads; k++ {
		if !try(Fault{Kind: "read-err", At: k}) {
			return viol, true
		}
	}
	for n := 0; n <= nbytes; n++ {
		if !try(Fault{Kind: "eof-at-byte", At: n}) {
			return viol, true
		}
	}
	for k := 0; k < nwrites; k++ {
		for _, j := range []int{0, 1, 1 << 20} {
			if !try(Fault{Kind: "write-err", At: k, Bytes: j}) {
				return viol, true
			}
		}
	}
	x.Probe("fault_positions_enumerated")
	return nil, true
}

// c04Flood is a hostile but well-framed run of n body-less messages of type t
// in a given protocol phase (none of them produces output).
func c04Flood(phase string, t byte, n int64, limit int) *Case {
	c := &Case{Variant: "flood-" + phase + "-" + string(t), Server: ServerCfg{Limit: limit}, Programs: map[string]*Program{}}
	c.Programs["cp"] = &Program{Stmts: []*StmtProg{{Cols: []ColSpec{{Name: "a", OID: 25}}, Ops: []Op{{K: "copyin", Fmt: 0}, {K: "copyall"}, {K: "complete", Tag: "COPY 1"}}}}}
	flood := pgwire.FMsg{K: "flood", T: t, Rep: n}
	var msgs []pgwire.FMsg
	switch phase {
	case "copy":
		msgs = []pgwire.FMsg{{K: "Q", S1: "cp"}, {K: "d", Data: []byte("row\n")}, flood, {K: "c"}}
	case "ready":
		msgs = []pgwire.FMsg{flood, {K: "S"}}
	case "discard":
		msgs = []pgwire.FMsg{{K: "B", S1: "", S2: "nope"}, flood, {K: "S"}}
	}
	steps := []Step{{Msgs: []pgwire.FMsg{startupMsg("u", "d")}}, {Msgs: msgs}, {Msgs: []pgwire.FMsg{{K: "X"}}}}
	c.Conns = []ConnCase{{Steps: steps, MeasureLive: true}}
	return withBystander(c)
}

// c04Churn: n short connections that never become a session (CancelRequest,
// SSLRequest + CancelRequest, junk, immediate EOF, truncated startup packet),
// served one after the other; the bystander that follows must still be served
// (whatever the server accounts per connection has to be handed back on every
// exit path).
func c04Churn(r *Rand, n int, kind string) *Case {
	c := &Case{Variant: "connection-churn-" + kind, Server: ServerCfg{Limit: 4096}, Programs: map[string]*Program{}}
	for i := 0; i < n; i++ {
		k := kind
		if k == "mixed" {
			k = r.Pick("cancel", "ssl-cancel", "junk", "eof", "cut-startup")
		}
		var steps []Step
		switch k {
		case "cancel":
			steps = []Step{{Msgs: []pgwire.FMsg{{K: "cancel"}}}}
		case "ssl-cancel":
			steps = []Step{{Msgs: []pgwire.FMsg{{K: "ssl"}}}, {Msgs: []pgwire.FMsg{{K: "cancel"}}}}
		case "junk":
			steps = []Step{{Msgs: []pgwire.FMsg{{K: "raw", Data: []byte("GET / HTTP/1.0\r\n\r\n")}}}}
		case "eof":
			steps = []Step{{Msgs: []pgwire.FMsg{{K: "raw", Data: nil}}}}
		case "cut-startup":
			su := startupMsg("u", "d")
			su.Cut = intp(6)
			steps = []Step{{Msgs: []pgwire.FMsg{su}}}
		}
		c.Conns = append(c.Conns, ConnCase{Steps: steps})
	}
	return withBystander(c)
}

// c04CopyRows: a long binary COPY stream (n identical rows) read through the
// library's row reader, cut into CopyData messages whose boundaries never
// coincide with a row boundary: the reader may hold what it has not consumed,
// not the whole stream.
func c04CopyRows(n int64, limit int) *Case {
	c := &Case{Variant: "flood-copy-rows", Server: ServerCfg{Limit: limit}, Programs: map[string]*Program{}}
	cols := []ColSpec{{Name: "id", OID: pgwire.OIDInt4}, {Name: "v", OID: pgwire.OIDText}}
	c.Programs["cp"] = &Program{Stmts: []*StmtProg{{Cols: cols, Ops: []Op{{K: "copyin", Fmt: 1}, {K: "binrows", Quiet: true}, {K: "finishcopy", Tag: "COPY"}}}}}
	row := [][]byte{{0, 0, 0, 7}, []byte(strings.Repeat("payload-", 25))}
	one := pgwire.EncodeBinaryCopyExt([][][]byte{row}, true, nil) // header, one row, trailer
	hdr, trailer := one[:19], one[len(one)-2:]
	rb := one[19 : len(one)-2]
	rot := append(append([]byte{}, rb[len(rb)-1:]...), rb[:len(rb)-1]...)
	msgs := []pgwire.FMsg{{K: "Q", S1: "cp"},
		{K: "d", Data: append(append([]byte{}, hdr...), rb[:len(rb)-1]...)},
		{K: "flood", T: 'd', Data: rot, Rep: n - 1},
		{K: "d", Data: append(append([]byte{}, rb[len(rb)-1:]...), trailer...)},
		{K: "c"}}
	c.Conns = []ConnCase{{Steps: []Step{{Msgs: []pgwire.FMsg{startupMsg("u", "d")}}, {Msgs: msgs}, {Msgs: []pgwire.FMsg{{K: "X"}}}}, MeasureLive: true}}
	return withBystander(c)
}

func c04Fixed(tier string) []*Case {
	out := c04Corpus()
	out = append(out, c04CopyRows(80000, 65536))
	for _, kind := range []string{"cancel", "ssl-cancel", "junk", "eof", "cut-startup", "mixed"} {
		out = append(out, c04Churn(NewRand(4242), 300, kind))
	}
	for _, f := range []struct {
		phase string
		t     byte
	}{{"copy", 'H'}, {"copy", 'S'}, {"ready", 'H'}, {"discard", 'H'}, {"discard", 'E'}} {
		out = append(out, c04Flood(f.phase, f.t, 400000, 4096))
	}
	// handcrafted malformed-last cases: nothing may be executed for them
	mk := func(last pgwire.FMsg, pre ...pgwire.FMsg) *Case {
		c := &Case{Variant: "malformed-last", Server: ServerCfg{Limit: 4096}, Programs: map[string]*Program{}, Expect: map[string]any{"malformed_last": true}}
		c.Programs["s"] = &Program{Stmts: []*StmtProg{{Params: []uint32{25, 25}, Cols: []ColSpec{{Name: "a", OID: 25}}, Ops: []Op{{K: "params"}, {K: "row", Row: []Val{{G: "string", S: "x"}}}, {K: "complete", Tag: "SELECT 1"}}}}}
		steps := []Step{{Msgs: []pgwire.FMsg{startupMsg("u", "d")}}}
		if len(pre) > 0 {
			steps = append(steps, Step{Msgs: pre})
		}
		steps = append(steps, Step{Msgs: []pgwire.FMsg{last}})
		c.Conns = []ConnCase{{Steps: steps, Measure: true}}
		return withBystander(c)
	}
	parse := pgwire.FMsg{K: "P", S1: "", S2: "s"}
	bindOK := pgwire.FMsg{K: "B", Params: []pgwire.Param{{V: []byte("one")}, {V: []byte("two")}}}
	full := bindOK.Bytes()
	for cut := 1; cut < len(full); cut++ {
		b := bindOK
		b.Cut = intp(cut)
		out = append(out, mk(b, parse))
	}
	for _, ln := range []uint32{4, 5, 100, 4097, 1 << 20, 0x7fffffff, 0xfffffffe} {
		body := bindOK.Body()
		off := 1 + 1 + 2 + 2
		binary.BigEndian.PutUint32(body[off:], ln)
		out = append(out, mk(pgwire.FMsg{K: "typed", T: 'B', Data: body}, parse))
	}
	for _, key := range []string{"pfmt", "params", "rfmt"} {
		for _, n := range []int{0xFFFF, 0x7FFF, 3, 0x8000, 0x8001, 0x8002, 0xC001} {
			b := bindOK
			b.CountOverride = map[string]int{key: n}
			if key == "rfmt" && n == 3 {
				continue
			}
			out = append(out, mk(b, parse))
		}
	}
	q := pgwire.FMsg{K: "Q", S1: "s and more text"}
	for cut := 1; cut < len(q.Bytes()); cut++ {
		qq := q
		qq.Cut = intp(cut)
		out = append(out, mk(qq))
	}
	qq := q
	qq.NoNul = true
	out = append(out, mk(qq))
	return out
}

func init() {
	register(&Prop{
		ID: "C04", Level: "fault_enumeration", QuickS: 30, ThoroughS: 480,
		Rule:       "fault enumeration: for each of a fixed corpus of 38 sessions (generated with fixed seeds over every phase: startup with/without authentication and middleware, SSLRequest declined, CancelRequest, simple and extended queries with failing handlers, COPY text and binary through the row reader, oversized and unknown messages) EVERY transport fault position is enumerated: fail the k-th read (all k), end the input after the n-th byte (all n), fail the k-th write with 0 / 1 / all-but-one bytes accepted (all k); plus enumerated truncations of a Bind and a Query at every byte, Bind value lengths beyond the body, counts 0xFFFF; plus seeded cases: random bytes on a fresh connection and after a valid startup, startup-phase packets with perturbed lengths and protocol versions, generated sessions with one field-level mutation (length word 0-3/L+1/2^31-1/2^32-1, truncation, missing NUL, counts 0xFFFF, value length beyond body, format codes other than 0 and 1, random type byte, 1-4 GiB declared with little sent), hostile texts through ParseParameters, corrupted binary COPY rows, and seeded fault combinations; oracles: the worker process survives (a death is attributed to the recorded case and confirmed alone), the hostile connection is closed and the server issues no further transport operation within the budget, a bystander session accepted afterwards on the same Server is served exactly as the model says and Serve returns nil, per-step allocation stays below 4L+16MiB, a faulted connection's callbacks/output are a prefix of the fault-free ones, nothing is executed for a certainly-malformed message; every case counts as TLS negotiation broken off by the peer after 'S' (alert records, truncated ClientHello, other record types, junk); peers that stall before their startup is complete while a bystander connects; COPY streams cut off inside an oversized message (the handler is never told the stream ended); final messages of 64 KiB - 400 KB whose every field arrives but whose declared length does not (nothing is executed for them); messages around and beyond the size limit behind legal traffic of every size (the generator of C10); non-trivial; distinct = distinct case content hashes; flood scenarios (enumerated and seeded): 250k-1M body-less messages in COPY, ready and discarding state with bounds on goroutine-stack and live-heap growth",
		Exhaustive: "every read index, input byte offset and write index (x3 accepted-byte counts) of each corpus session; every truncation offset of the handcrafted Bind and Query",
		Components: append(append([]string{}, e1Components...), "E2 share (the variants that pin Server.Close or other connections against a running session): seeded scheduler harness/kernel.go decides every interleaving of connection goroutines and Close callers at transport operations, callbacks, hand-placed hooks and spliced synchronisation points"), Assumptions: append(append([]string{}, commonAssumptions...), "allocation failure and Accept errors are not injected (not injectable in Go / no property speaks about them)"),
		Fixed: c04Fixed, Gen: genC04, Check: checkC04,
	})
}

package harness

import (
	"fmt"
	"sort"
	"strings"

	"verif/pgwire"
)

// genTail draws what a client sends after (or pipelined with) its password
// message: queries, extended messages, Terminate, raw bytes.
func genTail(r *Rand, c *Case) []pgwire.FMsg {
	var out []pgwire.FMsg
	n := r.Range(0, 5)
	for i := 0; i < n; i++ {
		switch r.Intn(8) {
		case 0, 1, 2:
			out = append(out, pgwire.FMsg{K: "Q", S1: "tailq" + fmt.Sprint(i)})
		case 3:
			out = append(out, pgwire.FMsg{K: "P", S1: "", S2: "tailp"}, pgwire.FMsg{K: "B"}, pgwire.FMsg{K: "E"}, pgwire.FMsg{K: "S"})
		case 4:
			out = append(out, pgwire.FMsg{K: "X"})
		case 5:
			out = append(out, pgwire.FMsg{K: "raw", Data: r.Bytes(r.Range(1, 30))})
		case 6:
			out = append(out, pgwire.FMsg{K: "S"})
		case 7:
			out = append(out, pgwire.FMsg{K: "p", S1: "second-try"})
		}
	}
	return out
}

func init() {
	// ------------------------------------------------------------------ C01
	register(&Prop{
		ID: "C01", Level: "exploration", QuickS: 20, ThoroughS: 300,
		Rule:       "seeded authentication attempts against ClearTextPassword(validator) and a custom failing strategy: validator outcome drawn per case (accept / reject / fail with either verdict flag), the client sends in place of the password message a correct, wrong or empty password, a password message without NUL / with surplus bytes / with declared length 0-3, > limit or 2^32-1, another message type, garbage, or nothing; then a generated tail of queries, extended messages, Terminate and raw bytes, pipelined in the same segment or sent after the server's reply; segmentation and a failing write are drawn per case; a share of cases lets 2-3 connections log in to one account at the same time under seeded schedules (one with the right password); a share of cases authenticates inside an upgraded (TLS) connection, with and without an unverified client certificate, judged against the plaintext equivalent; in a quarter of the cases an earlier connection first logs in successfully with related credentials (the same triple, whose password the validator rejects from the second time on, or a triple that reads the same when its parts are joined with a separator), some accounts have an empty password, some servers were given an accept-all strategy before the configured one (last option wins), a failing write is permanent or transient (exactly one write fails); validators whose returned context has already ended when they refuse (a lookup under its own time limit); the same wrong credentials presented twice in a row; E2 variant slow-validators: a correct login whose lookup takes 0.1 s - 1 min of simulated time beside a later wrong-password login whose lookup is slow too; E2 variant: Server.Close runs while the validator is looking at a wrong password (the refusal is still reported, nothing is served); validators that panic (the injected panic crosses the library and is caught at the top of the connection goroutine: the process may die, the connection never gets in); non-trivial = the connection was not accepted and the client sent at least one message after its credentials; distinct = distinct case content hashes",
		Components: e1Components, Assumptions: commonAssumptions,
		Gen: func(r *Rand, tier string) *Case {
			if r.Chance(1, 15) {
				// authentication over an upgraded connection (decided with the TLS
				// machinery of C11: the session must fare exactly like its plaintext
				// equivalent), the validator accepting or rejecting, with and without
				// an unverified client certificate
				for {
					c := genC11(r, tier)
					if c.Server.Auth == "cleartext" && c.Variant == "tls-session" && len(c.Conns) > 0 && c.Conns[0].TLS != nil {
						if r.Bool() {
							for i := range c.Server.Validator {
								c.Server.Validator[i].Out = r.Pick("reject", "fail", "failtrue")
							}
						}
						if c.Server.TLSClientAuth == "" && r.Bool() {
							c.Server.TLSClientAuth = r.Pick("request", "require-any")
							c.Conns[c11Target(c)].TLS.Cert = true
						}
						return c
					}
				}
			}
			if r.Chance(1, 30) {
				// Server.Close runs while the validator is looking at a wrong password
				// (engine E2): the refusal is still reported and nothing is served
				c := &Case{Variant: "close-during-validation", Server: ServerCfg{Auth: "cleartext", Limit: 4096, DefaultAuth: r.Pick("reject", "reject", "fail")}, Programs: map[string]*Program{}}
				user, db, pw := r.Ident(4), r.Ident(3), "secret"+r.Ident(2)
				c.Server.Validator = []AuthEntry{{DB: db, User: user, PW: pw, Out: "accept"}}
				if r.Chance(1, 3) {
					c.Server.MW = []MWSpec{{}}
				}
				tail := genTail(r, c)
				c.Conns = []ConnCase{{Steps: []Step{{Msgs: []pgwire.FMsg{startupMsg(user, db)}}, {Msgs: append([]pgwire.FMsg{{K: "p", S1: "wrong" + r.Ident(2)}}, tail...)}}}}
				c.Sched = &SchedCase{Strategy: r.Pick("uniform", "pct"), Depth: 1, MaxSteps: 200000, Closers: []Closer{{Calls: r.Range(1, 2)}},
					Holds: []Hold{{Task: 2, Point: "closer.start", Until: 1, UntilPoint: "cb.validator"}, {Task: 1, Point: "cb.validator.ret", Until: 2, UntilPoint: r.Pick("close.signalled", "close.signalled", "closer.returned")}}}
				return c
			}
			if r.Chance(1, 30) {
				// slow validators (engine E2): a login whose lookup takes 0.1 s - 1 min
				// of simulated time and succeeds, and - starting later, while or after
				// that lookup runs - a login with a wrong password whose lookup is slow
				// too: every connection is judged on its own credentials, however late
				// another connection's verdict arrives
				c := &Case{Variant: "slow-validators", Server: ServerCfg{Auth: "cleartext", Limit: 4096, DefaultAuth: "reject"}, Programs: map[string]*Program{}}
				user, db, pw := r.Ident(4), r.Ident(3), "secret"+r.Ident(2)
				wrong := "wrong" + r.Ident(2)
				slow := r.PickInt(100, 5500, 7000, 31000, 61000)
				c.Server.Validator = []AuthEntry{{DB: db, User: user, PW: pw, Out: "accept", SleepMs: slow}, {DB: db, User: user, PW: wrong, Out: r.Pick("reject", "reject", "fail"), SleepMs: r.PickInt(0, 1000, 3000, slow)}}
				tail := genTail(r, c)
				c.Conns = []ConnCase{
					{Steps: []Step{{Msgs: []pgwire.FMsg{startupMsg(user, db)}}, {Msgs: []pgwire.FMsg{{K: "p", S1: pw}, {K: "Q", S1: "after-login"}}}}},
					{Steps: []Step{{Msgs: []pgwire.FMsg{startupMsg(user, db)}, IdleMs: r.PickInt(0, slow/2, slow-500, slow-10)}, {Msgs: append([]pgwire.FMsg{{K: "p", S1: wrong}}, tail...)}}},
				}
				c.Sched = &SchedCase{Strategy: r.Pick("uniform", "pct"), Depth: r.Range(1, 2), MaxSteps: 200000}
				return c
			}
			if r.Chance(1, 12) {
				// several connections log in to the same account at the same time
				// (engine E2, seeded schedules), one of them with the right password:
				// every connection is judged on its own credentials
				c := &Case{Server: ServerCfg{Auth: "cleartext", Limit: 4096, DefaultAuth: r.Pick("reject", "fail")}, Programs: map[string]*Program{}}
				user, db, pw := r.Ident(4), r.Ident(3), "secret"+r.Ident(2)
				c.Server.Validator = []AuthEntry{{DB: db, User: user, PW: pw, Out: "accept"}}
				if r.Chance(1, 4) {
					c.Server.MW = []MWSpec{{}}
				}
				n := r.Range(2, 3)
				right := r.Intn(n)
				for i := 0; i < n; i++ {
					p := "wrong" + r.Ident(2)
					if i == right {
						p = pw
					}
					tail := genTail(r, c)
					c.Conns = append(c.Conns, ConnCase{Steps: []Step{{Msgs: []pgwire.FMsg{startupMsg(user, db)}}, {Msgs: append([]pgwire.FMsg{{K: "p", S1: p}}, tail...)}}})
				}
				c.Sched = &SchedCase{Strategy: r.Pick("uniform", "pct"), Depth: r.Range(1, 3), MaxSteps: 200000}
				if r.Bool() {
					// the connection with the right password sits inside the validator
					// until another one has reached it
					other := (right + 1) % n
					c.Sched.Holds = []Hold{{Task: 1 + right, Point: "cb.validator", Until: 1 + other, UntilPoint: "cb.validator"}}
				}
				return c
			}
			c := &Case{Server: ServerCfg{Auth: "cleartext", Limit: r.PickInt(64, 256, 4096)}, Programs: map[string]*Program{}}
			if r.Chance(1, 12) {
				c.Server.Auth = "custom-fail"
			}
			if r.Chance(1, 4) {
				c.Server.MW = []MWSpec{{}}
			}
			if r.Chance(1, 3) {
				c.Server.Term = "ok"
			}
			user, db, pw := r.Ident(4), r.Ident(3), "secret"+r.Ident(2)
			out := r.Pick("accept", "reject", "reject", "fail", "failtrue")
			if r.Chance(1, 12) {
				// a faulty validator that panics for these credentials: the panic may
				// take the process down, it never lets the connection in
				out = "panic"
			}
			c.Server.Validator = []AuthEntry{{DB: db, User: user, PW: pw, Out: out}}
			c.Server.DefaultAuth = r.Pick("reject", "reject", "fail")
			// (a validator that looks the account up under a time limit of its own:
			// the context it hands back has ended by the time it returns)
			c.Server.ValCtxDone = r.Chance(1, 6)
			var cred pgwire.FMsg
			var credTail []pgwire.FMsg
			su := startupMsg(user, db)
			switch r.Intn(16) {
			case 14, 15:
				// a body-less password message after a startup packet that carries
				// bytes behind its terminator (which spell an acceptable password)
				su.Tail = append([]byte(pw), 0)
				cred = pgwire.FMsg{K: "typed", T: 'p'}
				if r.Bool() {
					cred.Data = []byte{}
					su.Tail = append([]byte(r.Pick(pw, "x")), 0)
				}
			case 0, 1:
				cred = pgwire.FMsg{K: "p", S1: pw}
			case 2:
				if r.Bool() {
					cred = pgwire.FMsg{K: "p", S1: pw}
				} else {
					// nearly the right password: the validator is asked about exactly
					// the bytes the client sent
					cred = pgwire.FMsg{K: "p", S1: r.Pick(pw+"\n", pw+"\r\n", pw+"\r", pw+" ", " "+pw, pw+"\t", strings.ToUpper(pw), pw+"\n\n")}
				}
			case 3, 4:
				cred = pgwire.FMsg{K: "p", S1: "wrong" + r.Ident(2)}
			case 5:
				cred = pgwire.FMsg{K: "p", S1: ""}
			case 6:
				cred = pgwire.FMsg{K: "p", S1: pw, NoNul: true}
			case 7:
				cred = pgwire.FMsg{K: "p", S1: pw, Tail: r.Bytes(r.Range(1, 8))}
			case 8:
				cred = pgwire.FMsg{K: "p", S1: pw, DeclLen: u32p(uint32(r.PickInt(0, 1, 2, 3, 5000, 0x7fffffff, 0xffffffff)))}
			case 9:
				cred = pgwire.FMsg{K: r.Pick("Q", "S", "X", "H"), S1: pw}
				if (cred.K == "S" || cred.K == "H") && r.Bool() {
					// ... with the right password message behind it: too late
					credTail = []pgwire.FMsg{{K: "p", S1: pw}}
					cred.S1 = ""
				}
			case 10:
				cred = pgwire.FMsg{K: "typed", T: byte(r.Pick("P", "B", "E", "z", "R")[0]), Data: append([]byte(pw), 0)}
			case 11:
				cred = pgwire.FMsg{K: "raw", Data: r.Bytes(r.Range(1, 20))}
			case 12:
				cred = pgwire.FMsg{K: "raw", Data: nil} // nothing: EOF
			case 13:
				cred = pgwire.FMsg{K: "p", S1: pw, Cut: intp(r.Range(1, 5))}
			}
			if r.Chance(1, 4) {
				// the account has no password: the empty password is right - when it
				// arrives in a well-formed password message
				c.Server.Validator = append(c.Server.Validator, AuthEntry{DB: db, User: user, PW: "", Out: "accept"})
			}
			if r.Chance(1, 6) {
				// an earlier strategy option that the configured one replaced
				c.Server.AuthFirst = "accept-all"
			}
			tail := append(credTail, genTail(r, c)...)
			steps := []Step{{Msgs: []pgwire.FMsg{su}}}
			if r.Bool() {
				steps = append(steps, Step{Msgs: append([]pgwire.FMsg{cred}, tail...)})
			} else {
				steps = append(steps, Step{Msgs: []pgwire.FMsg{cred}})
				if len(tail) > 0 {
					steps = append(steps, Step{Msgs: tail})
				}
			}
			cc := ConnCase{Steps: steps, Cuts: genCuts(r)}
			if r.Chance(1, 3) {
				// the peer keeps the connection open and stays silent after its last
				// bytes (which may end in the middle of a message): a refused
				// connection must be closed by the server, not by the client
				cc.NoEOF = true
				if r.Bool() {
					last := &cc.Steps[len(cc.Steps)-1]
					last.Msgs = append(last.Msgs, pgwire.FMsg{K: "Q", S1: "unfinished " + r.Ident(20), Cut: intp(r.Range(1, 9))})
				}
			}
			if r.Chance(1, 5) {
				// a permanently or transiently failing write (the latter: exactly one
				// write fails, e.g. the one carrying the rejection, later ones succeed)
				if r.Bool() {
					cc.Faults = []Fault{{Kind: "write-err", At: r.Range(0, 3), Bytes: r.Intn(4)}}
				} else {
					cc.Faults = []Fault{{Kind: "write-err-transient", At: r.Range(0, 3)}}
				}
			}
			c.Conns = []ConnCase{cc}
			if r.Chance(1, 4) {
				// an earlier connection logs in successfully with credentials that are
				// related to the ones under test: the same triple (whose password has
				// been revoked since), or a triple that reads the same when its parts
				// are joined with a separator
				sep := r.Pick(":", "@", "", "/", " ", "|", "\x1f")
				a, b := r.Ident(3), r.Ident(2)
				var first, second [3]string // user, pw, db
				kind := r.Intn(5)
				switch kind {
				case 4:
					// the very same wrong credentials, presented again: refused and
					// reported the second time exactly like the first
					w := "wrong" + r.Ident(2)
					first = [3]string{user, w, db}
					second = first
				case 0:
					first = [3]string{user, pw, db}
					second = first
				case 1:
					first = [3]string{a + sep + b, pw, db}
					second = [3]string{a, b + sep + pw, db}
				case 2:
					first = [3]string{user, a + sep + b, db}
					second = [3]string{user, a, b + sep + db}
				case 3:
					first = [3]string{a, b + sep + pw, db}
					second = [3]string{a + sep + b, pw, db}
				}
				ent := AuthEntry{User: first[0], PW: first[1], DB: first[2], Out: "accept"}
				if second == first {
					ent.Next = r.Pick("reject", "fail", "failtrue")
				}
				if kind == 4 {
					ent.Out, ent.Next = "reject", ""
				}
				c.Server.Validator = []AuthEntry{ent}
				prev := ConnCase{Steps: []Step{{Msgs: []pgwire.FMsg{startupMsg(first[0], first[2])}}, {Msgs: []pgwire.FMsg{{K: "p", S1: first[1]}, {K: "X"}}}}}
				cur := ConnCase{Steps: []Step{{Msgs: []pgwire.FMsg{startupMsg(second[0], second[2])}}, {Msgs: append([]pgwire.FMsg{{K: "p", S1: second[1]}}, tail...)}}, Cuts: genCuts(r)}
				if r.Chance(1, 8) {
					cur.Steps[0].IdleMs = r.PickInt(1000, 31000, 3600000)
				}
				c.Conns = []ConnCase{prev, cur}
			}
			return c
		},
		Check: func(x *Exec, c *Case) ([]Violation, bool) {
			if len(c.Conns) > 0 && c.Conns[0].TLS != nil {
				viol, nt := checkC11(x, c)
				for i := range viol {
					viol[i].Prop = "C01"
				}
				return viol, nt
			}
			r := x.Run(c)
			if c.Sched != nil {
				c.Sched.Schedule = r.Schedule
				if r.Outcome == RunBudget {
					return nil, false
				}
			}
			var viol []Violation
			nt := false
			for i, cs := range r.Conns {
				t := ParseOut(cs)
				viol = append(viol, GrammarViolation("C01", i, t)...)
				viol = append(viol, connEnded("C01", i, cs)...)
				accepted := false
				var valSeq int64 = -1
				rejected := false
				for _, e := range cs.Events {
					if e.K == "validator" {
						valSeq = e.Seq
						if strings.HasSuffix(e.S, "-> accept") {
							accepted = true
						}
						if strings.HasSuffix(e.S, "-> reject") {
							rejected = true
						}
					}
				}
				kinds := pgwire.Kinds(t.Msgs)
				add := func(rule, detail string) {
					viol = append(viol, Violation{Prop: "C01", Rule: rule, Sig: rule, Detail: fmt.Sprintf("conn %d: %s (server output %q)", i, detail, kinds)})
				}
				// R0: the strategy judges the credentials the client sent: when the
				// startup packet and the password message are plain and well formed,
				// the validator is asked about exactly that user, database and password
				if msgs := cs.cc.FlatMsgs(); len(msgs) > 1 && msgs[0].K == "startup" && isPlain(&msgs[0]) && len(msgs[0].Tail) == 0 && !msgs[0].NoTerm &&
					msgs[1].K == "p" && isPlain(&msgs[1]) && len(msgs[1].Tail) == 0 {
					sp := startupParams(&msgs[0])
					want := fmt.Sprintf("db=%q user=%q pw=%q -> ", sp["database"], sp["user"], msgs[1].S1)
					for _, e := range cs.Events {
						if e.K == "validator" && !strings.HasPrefix(e.S, want) {
							add("validator-asked-about-other-credentials", fmt.Sprintf("the client sent %sbut the validator was asked about %s", strings.TrimSuffix(want, "-> "), e.S))
						}
					}
				}
				// R1: AuthenticationOk only if accepted, and after the validator ran
				okSeen := false
				for _, m := range t.Msgs {
					if m.Type == 'R' && m.AuthCode == 0 {
						okSeen = true
					}
				}
				if okSeen && !accepted {
					add("auth-ok-without-acceptance", "AuthenticationOk was sent although the strategy did not accept the credentials")
				}
				// R5: anything other than a well-formed password message is never accepted
				if msgs := cs.cc.FlatMsgs(); okSeen && len(msgs) > 1 {
					cm := &msgs[1]
					wellFormed := cm.K == "p" && cm.DeclLen == nil && cm.Cut == nil && !cm.NoNul && cm.Pad == 0
					if !wellFormed && cm.K == "p" && (cm.Cut != nil || cm.DeclLen != nil) && len(msgs) > 2 && accepted {
						// a truncated or mis-sized 'p' message followed by further bytes is,
						// as a byte stream, a password message whose body continues into
						// those bytes: if the validator accepted the password they spell
						// (e.g. the empty one of a password-less account), the strategy did
						// accept these credentials
						wellFormed = true
					}
					if !wellFormed {
						add("malformed-credentials-accepted", fmt.Sprintf("AuthenticationOk was sent although the client did not send a well-formed password message (it sent kind %q, %d body bytes)", clientKind(cm), cm.DeclaredBody()))
						accepted = false
					}
				}
				if okSeen && accepted {
					// ordering: the AuthenticationOk write happened after the validator event
					for _, e := range cs.Events {
						if e.K == "write" && e.Seq < valSeq {
							continue
						}
					}
				}
				if !accepted {
					if len(cs.cc.FlatMsgs()) > 2 {
						nt = true
					}
					if cs.cc.NoEOF && cs.Started && cs.ClosedBefore == 0 && valSeq >= 0 {
						// (only once the verdict is in: a peer that went silent in the
						// middle of its password message is legitimately waited for)
						add("refused-connection-left-open", "the credentials were not accepted but the server keeps the connection open until the client goes away")
					}
					// R2: no session artefacts at all
					if strings.ContainsAny(kinds, "SZ") {
						add("session-after-rejection", "ParameterStatus/ReadyForQuery sent on a connection whose credentials were not accepted")
					}
					for _, e := range cs.Events {
						switch e.K {
						case "mw", "parse", "stmt", "terminate":
							add("callback-after-rejection", fmt.Sprintf("callback %q ran on a connection whose credentials were not accepted", e.K+" "+trunc(e.S, 40)))
						}
					}
					// after the authentication request: nothing or exactly one ErrorResponse
					rest := kinds
					if idx := strings.IndexByte(rest, 'R'); idx >= 0 {
						rest = rest[idx+1:]
					}
					if rest != "" && rest != "E" && len(cs.cc.Faults) == 0 {
						add("unexpected-output-after-rejection", fmt.Sprintf("after the authentication request the server sent %q, want nothing or exactly one ErrorResponse", rest))
					}
					// R3': credentials the validator refuses are wrong whether or not the
					// server bothers to ask it (again): a plain startup packet and a plain
					// password message carrying them are answered with class 28
					if msgs := cs.cc.FlatMsgs(); !rejected && len(cs.cc.Faults) == 0 && c.Server.Auth == "cleartext" && len(msgs) > 1 && msgs[0].K == "startup" && isPlain(&msgs[0]) && len(msgs[0].Tail) == 0 && !msgs[0].NoTerm &&
						(msgs[0].Proto == 0 || msgs[0].Proto == pgwire.ProtoV3) && msgs[1].K == "p" && isPlain(&msgs[1]) && len(msgs[1].Tail) == 0 && valSeq < 0 {
						sp := startupParams(&msgs[0])
						out := c.Server.DefaultAuth
						if out == "" {
							out = "reject"
						}
						for _, e := range c.Server.Validator {
							if e.DB == sp["database"] && e.User == sp["user"] && e.PW == msgs[1].S1 {
								out = e.Out
								if e.Next != "" {
									out = "?"
								}
								break
							}
						}
						if out == "reject" && cs.Started {
							rejected = true
						}
					}
					// R3: a wrong password is reported with SQLSTATE class 28
					if rejected && len(cs.cc.Faults) == 0 {
						found := false
						for _, m := range t.Msgs {
							if m.Type == 'E' && strings.HasPrefix(m.Fields['C'], "28") {
								found = true
							}
						}
						if !found {
							add("rejection-not-reported", "the validator answered false but no ErrorResponse of SQLSTATE class 28 was sent")
						}
					}
				} else if len(cs.cc.Faults) == 0 {
					// R4: accepted connections complete the startup normally
					mr := MatchConn(c, cs, t)
					if !mr.OK {
						viol = append(viol, Violation{Prop: "C01", Rule: mr.Rule, Detail: fmt.Sprintf("conn %d (accepted): %s", i, mr.Detail), Sig: mr.Sig})
					}
				}
			}
			return viol, nt
		},
	})

	// ------------------------------------------------------------------ C02
	register(&Prop{
		ID: "C02", Level: "exploration", QuickS: 25, ThoroughS: 420,
		Rule:       "seeded sessions from the widest handler-program generator (0-4 columns with arbitrary NUL-free names, every covered OID, rows that are fine / wrong arity / unencodable at column j so that a frame is abandoned half-built, command tags, errors decorated with every combination and order of code/severity/hint/detail/source/constraint and %w wrapping, COPY responses, Go strings with NUL bytes in text columns, a session context that ends at any operation of any statement while the client goes on sending, startup with and without authentication, oversized and unknown client messages, simple and extended protocol) with a failing, transiently failing or slow (the peer stalls inside the write for 0.1 s - 1 h of simulated time, then resumes) k-th write in a third of the runs, optionally one or two SSLRequests ahead of the startup packet; the accepted output must parse under the strict backend grammar with zero bytes left over; the same rule runs as a monitor in every other property's runs; transient write failures deliver a prefix of the failing write (optionally reporting Timeout()): nothing may be written behind a torn message; non-trivial = the run produced at least one ErrorResponse, DataRow or rejected row; distinct = distinct case content hashes",
		Components: e1Components, Assumptions: commonAssumptions,
		Gen: func(r *Rand, tier string) *Case {
			c := &Case{Server: ServerCfg{Limit: smallLimit(r)}}
			if r.Chance(1, 4) {
				c.Server.Auth = "cleartext"
			}
			if r.Chance(1, 4) {
				c.Server.Params = map[string]string{r.Ident(5): r.Str(r.Intn(8))}
				c.Server.Version = r.Pick("", "15.2", r.Str(4))
			}
			r.NulStr = true
			genHistory(r, c, histOpts{manyRows: true, simple: true, extended: true, copy: true, errs: true, abuse: true, unknown: true, oversized: true,
				stray: true, decorated: true, rich: true, binary: true, params: true, typedNull: true, unknownNames: true, closes: true, multi: true, terminate: true, maxUnits: 7})
			if r.Chance(1, 8) {
				// the session context (derived by a middleware, as a session time limit
				// would) ends at some operation of some statement; whatever the server
				// still sends afterwards - in this command and in the later ones - is
				// made of complete messages
				c.Server.MW = append(c.Server.MW, MWSpec{Cancel: true})
				var keys []string
				for k, p := range c.Programs {
					if len(p.Stmts) > 0 {
						keys = append(keys, k)
					}
				}
				sort.Strings(keys)
				if len(keys) > 0 {
					p := c.Programs[keys[r.Intn(len(keys))]]
					sp := p.Stmts[r.Intn(len(p.Stmts))]
					at := r.Intn(len(sp.Ops) + 1)
					ops := append([]Op{}, sp.Ops[:at]...)
					ops = append(ops, Op{K: "cancel"})
					sp.Ops = append(ops, sp.Ops[at:]...)
				}
			}
			if r.Chance(1, 8) {
				// a client of a newer minor protocol version with protocol options
				// (also repeated ones): the server may answer NegotiateProtocolVersion
				su := &c.Conns[0].Steps[0].Msgs[0]
				su.Proto = uint32(r.PickInt(0x00030002, 0x00030001, pgwire.ProtoV3))
				k := "_pq_." + r.Ident(3)
				su.KV = append(su.KV, [2]string{k, "1"})
				if r.Bool() {
					su.KV = append(su.KV, [2]string{k, "2"}, [2]string{"_pq_." + r.Ident(2), ""})
				}
			}
			if r.Chance(1, 3) {
				kind := r.Pick("write-err", "write-err-transient", "write-err-transient", "write-slow")
				c.Conns[0].Faults = []Fault{{Kind: kind, At: r.Range(0, 25), Bytes: r.PickInt(0, 1, 4, 5, 6, 1000)}}
				c.Conns[0].Faults[0].Timeout = kind == "write-err-transient" && r.Bool()
				if kind == "write-slow" {
					// the peer stops reading in the middle of that write for a while
					// and then resumes (simulated time passes inside the write)
					c.Conns[0].Faults[0].Ms = r.PickInt(100, 5500, 31000, 3600000)
				}
			}
			if r.Chance(1, 10) {
				// one or two SSLRequests ahead of the startup packet (no certificates:
				// one reply byte, then only complete backend messages)
				cc := &c.Conns[0]
				for n := r.Range(1, 2); n > 0; n-- {
					if r.Bool() {
						cc.Steps = append([]Step{{Msgs: []pgwire.FMsg{{K: "ssl"}}}}, cc.Steps...)
					} else {
						cc.Steps[0].Msgs = append([]pgwire.FMsg{{K: "ssl"}}, cc.Steps[0].Msgs...)
					}
				}
			}
			return c
		},
		Check: func(x *Exec, c *Case) ([]Violation, bool) {
			r := x.Run(c)
			var viol []Violation
			nt := false
			for i, cs := range r.Conns {
				t := ParseOut(cs)
				viol = append(viol, GrammarViolation("C02", i, t)...)
				k := pgwire.Kinds(t.Msgs)
				if strings.ContainsAny(k, "ED") {
					nt = true
				}
				for _, e := range cs.Events {
					if e.K == "op" && strings.HasSuffix(e.S, "row err") {
						nt = true
					}
				}
			}
			return viol, nt
		},
	})
}

package harness

import (
	"fmt"
	"strings"

	"verif/pgwire"
)

// histOpts steers the shared history generator.
type histOpts struct {
	simple, extended, copy bool
	errs                   bool // parsers / statement functions that fail
	abuse                  bool // wrong-arity rows, unencodable rows, calls after completion
	unknown                bool // unknown message types
	oversized              bool // messages beyond the limit (requires a small Limit)
	stray                  bool // COPY messages outside COPY mode
	decorated              bool // fully decorated errors (C02) instead of plain ones
	rich                   bool // date/time column types too
	docs                   bool // with rich: name, bpchar, json and jsonb columns filled from Go strings
	binary                 bool // binary result formats
	params                 bool // statements with declared parameters, Bind values
	typedNull              bool // NULL written as typed nil pointers / invalid pgtype values
	unknownNames           bool // refer to statement / portal names never defined
	closes                 bool // Close messages
	multi                  bool // several statements per simple query
	terminate              bool // may end with Terminate
	maxUnits               int
	names                  int    // size of the name pools
	between                bool   // traffic between Bind and Execute
	bigValues              bool   // parameter values that cross the 4 KiB allocation granule
	retain                 bool   // statement functions retain their parameters (C18)
	sizes                  bool   // messages with body sizes around the 4 KiB granule and the limit
	tails                  bool   // grammar-external surplus bytes inside messages (C03)
	copyForeign            bool   // Terminate/Describe/Close/Bind as the foreign message that aborts a COPY (C13)
	copyTwice              bool   // a handler that starts a second COPY after the first one ended (C13)
	churn                  bool   // long runs of Parse/Close, many live names, Bind/Close (C07)
	manyRows               bool   // long results: a row repeated 17-3000 times (E1 sessions)
	prefix                 string // program-key prefix (distinct per connection in multi-connection cases)
}

type histGen struct {
	longNames bool
	r         *Rand
	c         *Case
	o         histOpts
	m         *Model
	st        *MState
	msgs      []pgwire.FMsg
	done      int // messages already stepped through the model
	nq        int
	stop      bool
}

func (g *histGen) oids() []uint32 {
	if g.o.rich && g.o.docs {
		return docOIDs
	}
	if g.o.rich {
		return richOIDs
	}
	return baseOIDs
}

func (g *histGen) newKey() string {
	g.nq++
	return fmt.Sprintf("%sq%d", g.o.prefix, g.nq)
}

func (g *histGen) err() *ErrSpec {
	if g.o.decorated {
		return genErrSpec(g.r)
	}
	return plainErr(g.r)
}

func (g *histGen) tag() string {
	if g.r.Chance(1, 5) {
		return g.r.Str(g.r.Intn(10))
	}
	return fmt.Sprintf("SELECT %d", g.r.Intn(5))
}

// genStmt draws a statement program.
func (g *histGen) genStmt(ext bool) *StmtProg {
	r := g.r
	sp := &StmtProg{}
	ncols := r.PickInt(0, 1, 1, 2, 3, 4)
	if g.o.manyRows && r.Chance(1, 40) {
		ncols = r.PickInt(17, 33, 128, 300) // a wide result
	}
	sp.Cols = genCols(r, ncols, g.oids())
	if g.o.retain {
		sp.Ops = append(sp.Ops, Op{K: "retain"})
	}
	if ext && g.o.params {
		np := r.PickInt(0, 1, 2, 3, 5)
		sp.Params = make([]uint32, np)
		for i := range sp.Params {
			sp.Params[i] = baseOIDs[r.Intn(len(baseOIDs))]
		}
		if np > 0 {
			sp.Ops = append(sp.Ops, Op{K: "params"})
			if r.Bool() {
				sp.Ops = append(sp.Ops, Op{K: "scan"})
			}
		}
	}
	if g.o.errs && r.Chance(1, 8) {
		sp.Ops = append(sp.Ops, Op{K: "return", Err: g.err()})
		return sp
	}
	if g.o.typedNull && len(sp.Cols) > 0 && r.Chance(1, 10) {
		// the handler writes several rows through one reused slice of pointers
		// to its own variables
		fams := []uint32{pgwire.OIDBool, pgwire.OIDInt2, pgwire.OIDInt4, pgwire.OIDInt8, pgwire.OIDFloat8, pgwire.OIDText}
		kinds := make([]string, len(sp.Cols))
		for i := range sp.Cols {
			sp.Cols[i].OID = fams[r.Intn(len(fams))]
			for _, k := range goKindsFor[oidFamily(sp.Cols[i].OID)] {
				if strings.HasPrefix(k, "ptr:") {
					kinds[i] = k
				}
			}
		}
		for n := r.Range(2, 4); n > 0; n-- {
			row := make([]Val, len(sp.Cols))
			for i, c := range sp.Cols {
				for {
					v := genValRepr(r, c.OID, oidFamily(c.OID))
					if v.G == kinds[i] {
						row[i] = v
						break
					}
				}
			}
			sp.Ops = append(sp.Ops, Op{K: "row", Row: row, Reuse: true})
		}
		sp.Ops = append(sp.Ops, Op{K: "written"}, Op{K: "complete", Tag: g.tag()})
		return sp
	}
	nrows := r.PickInt(0, 1, 1, 2, 3)
	for i := 0; i < nrows; i++ {
		row := genRow(r, sp.Cols, 5, g.o.typedNull)
		if g.o.abuse {
			switch r.Intn(8) {
			case 0: // wrong arity
				if r.Bool() && len(row) > 0 {
					row = row[:len(row)-1]
				} else {
					row = append(row, Val{G: "string", S: "extra"})
				}
			case 1: // unencodable at a random column (frame abandoned half-built)
				if len(row) > 0 {
					row[r.Intn(len(row))] = Val{G: "chan"}
				}
			}
		}
		op := Op{K: "row", Row: row}
		if g.o.manyRows && r.Chance(1, 20) {
			// a long result: the same row many times
			op.N = r.PickInt(17, 100, 255, 256, 257, 1000, 3000)
		}
		sp.Ops = append(sp.Ops, op)
		if r.Chance(1, 3) {
			sp.Ops = append(sp.Ops, Op{K: "written"})
		}
		if g.o.abuse && r.Chance(1, 10) {
			sp.Ops = append(sp.Ops, Op{K: "empty"}) // refused once rows were delivered; must have no effect
		}
		if g.o.errs && r.Chance(1, 12) {
			sp.Ops = append(sp.Ops, Op{K: "return", Err: g.err()})
			return sp
		}
	}
	if g.o.abuse && r.Chance(1, 15) {
		// the statement function gives up: it returns nil without completing
		// (after whatever it wrote or failed to write)
		return sp
	}
	sp.Ops = append(sp.Ops, Op{K: "written"}, Op{K: "complete", Tag: g.tag()})
	if g.o.abuse && r.Chance(1, 3) {
		for n := r.Range(1, 3); n > 0; n-- {
			switch r.Intn(5) {
			case 0:
				sp.Ops = append(sp.Ops, Op{K: "row", Row: genRow(r, sp.Cols, 0, false)})
			case 1:
				sp.Ops = append(sp.Ops, Op{K: "complete", Tag: "AGAIN"})
			case 2:
				sp.Ops = append(sp.Ops, Op{K: "empty"})
			case 3:
				sp.Ops = append(sp.Ops, Op{K: "copyin", Fmt: 0})
			case 4:
				sp.Ops = append(sp.Ops, Op{K: "written"})
			}
		}
	}
	if g.o.errs && r.Chance(1, 12) {
		sp.Ops = append(sp.Ops, Op{K: "return", Err: g.err()})
	}
	return sp
}

// genCopyStmt draws a COPY-in statement and the client's COPY messages.
func (g *histGen) genCopyStmt() (*StmtProg, []pgwire.FMsg) {
	r := g.r
	ncols := r.Range(1, 4)
	if r.Chance(1, 15) {
		ncols = r.PickInt(31, 32, 33, 40, 100, 300) // a wide table
	} else if r.Chance(1, 15) {
		ncols = 0 // no declared columns: COPY cannot be started (no CopyInResponse, the call fails)
	}
	sp := &StmtProg{Cols: genCols(r, ncols, baseOIDs)}
	for i := range sp.Cols {
		if r.Chance(1, 12) {
			// types the connection's type map cannot decode (money, aclitem, regrole,
			// an unknown OID): announced in the requested format like any other column
			sp.Cols[i].OID = uint32(r.PickInt(790, 1033, 4096, 99999))
		}
	}
	fmtc := int16(r.Intn(2))
	sp.Ops = append(sp.Ops, Op{K: "copyin", Fmt: fmtc})
	// client sequence
	var seq []pgwire.FMsg
	n := r.PickInt(0, 1, 2, 3, 5)
	for i := 0; i < n; i++ {
		switch r.Intn(7) {
		case 0:
			seq = append(seq, pgwire.FMsg{K: "H"})
		case 1:
			seq = append(seq, pgwire.FMsg{K: "S"})
		default:
			data := r.Bytes(r.PickInt(0, 1, 5, 40, 300))
			if r.Chance(1, 8) {
				// payloads that spell the old text-format end-of-data marker: data like any other
				data = []byte(r.Pick("\\.", "\\.\n", "\\.\r\n", "\\.\n\\.\n", "x\\.\n"))
			}
			seq = append(seq, pgwire.FMsg{K: "d", Data: data})
		}
	}
	if (g.o.oversized || g.o.sizes) && g.m.Limit < 1<<20 && r.Chance(1, 4) {
		// an oversized message in the middle of the COPY (skipped in full, aborts the COPY)
		seq = append(seq, pgwire.FMsg{K: "typed", T: byte(r.Pick("d", "d", "f", "Q")[0]), Pad: int64(g.m.Limit) + int64(r.PickInt(1, 100, g.m.Limit+3)), PadPat: []byte("overwrite-attempt-in-copy ")})
	}
	switch r.Intn(6) {
	case 0:
		seq = append(seq, pgwire.FMsg{K: "f", S1: "client gives up " + r.Ident(3)})
	case 1:
		// a non-COPY message aborts the COPY
		nk := 4
		if g.o.copyForeign {
			nk = 8
		}
		switch r.Intn(nk) {
		case 4:
			// Terminate in the middle of the stream: a foreign message like any other
			seq = append(seq, pgwire.FMsg{K: "X"})
		case 5:
			seq = append(seq, pgwire.FMsg{K: "D", Sub: 'S', S1: ""})
		case 6:
			seq = append(seq, pgwire.FMsg{K: "C", Sub: 'P', S1: ""})
		case 7:
			seq = append(seq, g.genBind("", ""))
		case 0:
			seq = append(seq, pgwire.FMsg{K: "Q", S1: g.newKey()})
		case 1:
			seq = append(seq, pgwire.FMsg{K: "P", S1: "", S2: g.newKey()})
		case 2:
			seq = append(seq, pgwire.FMsg{K: "typed", T: 'z', Data: []byte("zz")})
		case 3:
			seq = append(seq, pgwire.FMsg{K: "E", S1: ""})
		}
	default:
		seq = append(seq, pgwire.FMsg{K: "c"})
	}
	// handler read plan
	switch r.Intn(7) {
	case 5: // read to the end, swallow whatever ended the stream, complete anyway
		sp.Ops = append(sp.Ops, Op{K: "copyall"}, Op{K: "complete", Tag: "COPY 0"})
	case 6: // read to the end, ignore the outcome, read once more, then report
		sp.Ops = append(sp.Ops, Op{K: "copyall"}, Op{K: "copyread", N: r.Range(1, 2)}, Op{K: "retlast"})
	case 0: // stop after k reads and complete
		sp.Ops = append(sp.Ops, Op{K: "copyread", N: r.Range(0, 2)}, Op{K: "complete", Tag: "COPY 0"})
	case 1: // fail after k reads
		sp.Ops = append(sp.Ops, Op{K: "copyread", N: r.Range(0, 2)}, Op{K: "return", Err: g.err()})
	case 2: // read to the end, ignore the outcome, keep reading once more, then report
		sp.Ops = append(sp.Ops, Op{K: "copyall"}, Op{K: "retlast"})
	default: // read to the end; on EOF complete, otherwise return the error
		sp.Ops = append(sp.Ops, Op{K: "copyall"}, Op{K: "retlast"})
	}
	return sp, seq
}

func (g *histGen) add(ms ...pgwire.FMsg) {
	if g.o.tails {
		for i := range ms {
			m := &ms[i]
			if len(m.K) == 1 && m.K != "d" && m.K != "p" && m.Tail == nil && g.r.Chance(1, 3) {
				m.Tail = g.r.Bytes(g.r.Range(1, 9))
			}
		}
	}
	g.msgs = append(g.msgs, ms...)
	for g.done < len(g.msgs) && !g.stop {
		bs := g.m.Step(g.st, g.msgs, g.done)
		b := bs[0]
		g.st = b.Next
		g.done += b.Consumed
		if b.End || b.Loose {
			g.stop = true
		}
	}
}

func (g *histGen) name(defined map[string]bool, pool string) string {
	names := []string{"", pool + "1", pool + "2"}
	if g.longNames {
		// names beyond 63 bytes that differ only after a long common prefix
		pre := pool + "_reporting_monthly_revenue_by_region_and_product_line_for_tenant_"
		names = []string{"", pre + "select", pre + "delete"}
	}
	if g.o.names > 0 && g.o.names < 3 {
		names = names[:g.o.names]
	}
	for k := 3; k < g.o.names; k++ {
		// larger pools: more names alive at once than any small fixed-size table holds
		names = append(names, fmt.Sprintf("%s%d", pool, k))
	}
	if g.o.unknownNames && g.r.Chance(1, 8) {
		return pool + "x" // never defined
	}
	return names[g.r.Intn(len(names))]
}

func (g *histGen) stmtNames() map[string]bool {
	out := map[string]bool{}
	for k := range g.st.Stmts {
		out[k] = true
	}
	return out
}

func (g *histGen) genBind(portal, stmt string) pgwire.FMsg {
	r := g.r
	b := pgwire.FMsg{K: "B", S1: portal, S2: stmt}
	def := g.st.Stmts[stmt]
	np := 0
	var declared []uint32
	ncols := 0
	if def != nil {
		declared = DeclaredParams(def.Prog, def.Query)
		np = len(declared)
		ncols = len(def.Prog.Cols)
	} else {
		np = r.Intn(3)
	}
	if np > 1000 && r.Chance(9, 10) {
		// (a statement with tens of thousands of placeholders: most clients that
		// bind it here forget the parameters - a Bind that really carries 65535
		// values is megabytes of case and thousands of reads, kept rare)
		np = r.Intn(3)
	}
	// parameter format codes: none, one for all, or one per parameter
	mode := r.Intn(3)
	if np == 0 && mode == 2 {
		mode = 0
	}
	if np >= 3 && np < 1000 && r.Chance(1, 15) {
		mode = 3
	}
	switch mode {
	case 3:
		// a format list that is neither empty, nor one code, nor one per parameter
		b.PFmt = make([]int16, r.Range(2, np-1))
		for i := range b.PFmt {
			b.PFmt[i] = int16(r.Intn(2))
		}
	case 1:
		b.PFmt = []int16{int16(r.Intn(2))}
	case 2:
		b.PFmt = make([]int16, np)
		for i := range b.PFmt {
			b.PFmt[i] = int16(r.Intn(2))
		}
	}
	pf, _ := resolveFormats(b.PFmt, np)
	b.Params = make([]pgwire.Param, np)
	for i := 0; i < np; i++ {
		if r.Chance(1, 6) {
			b.Params[i] = pgwire.Param{Null: true}
			continue
		}
		var oidv uint32 = pgwire.OIDText
		if i < len(declared) && declared[i] != 0 {
			oidv = declared[i]
		}
		large := r.Large
		r.Large = false
		v := genVal(r, oidv).Canon(oidv)
		r.Large = large
		enc, err := pgwire.Encode(oidv, pf[i], v)
		if err != nil {
			enc = []byte("x")
		}
		if pf[i] == 1 && pgwire.KindOf(oidv) != "text" && oidv != pgwire.OIDBytea && oidv != pgwire.OIDBool && r.Chance(1, 10) {
			// (not for bool: any single byte is a binary boolean of the right
			// width, and which of them are true is not fixed by the properties)
			// a parameter announced as binary that carries the text rendering of its
			// value (or another wrong width): binary is binary, the type's own
			// decoder has to refuse it
			if txt, err := pgwire.Encode(oidv, 0, v); err == nil && len(txt) > 0 {
				enc = txt
			}
			if r.Chance(1, 3) {
				enc = []byte(r.Pick("NaN", "1e5", "42", "t", "true", "2024-02-29", "infinity", "00000000-0000-0000-0000-000000000000", "0"))
			}
		}
		if (oidv == pgwire.OIDText || oidv == pgwire.OIDVarchar || oidv == pgwire.OIDBytea) && pf[i] == 1 && r.Chance(1, 3) {
			enc = r.Bytes(r.PickInt(0, 1, 9, 200)) // arbitrary bytes incl. NUL
			if g.o.bigValues && g.m.Limit >= 16384 && r.Chance(1, 3) {
				enc = r.Bytes(r.PickInt(3000, 4090, 4096, 5000))
			}
		}
		if enc == nil {
			enc = []byte{}
		}
		b.Params[i] = pgwire.Param{V: enc}
	}
	// result formats
	if g.o.binary {
		switch r.Intn(3) {
		case 1:
			b.RFmt = []int16{int16(r.Intn(2))}
		case 2:
			if ncols > 0 {
				b.RFmt = make([]int16, ncols)
				for i := range b.RFmt {
					b.RFmt[i] = int16(r.Intn(2))
				}
			}
		}
	}
	return b
}

// unit appends one unit of traffic (a message or a small pipeline).
func (g *histGen) unit() {
	r := g.r
	type choice struct {
		w  int
		fn func()
	}
	var cs []choice
	if g.o.simple {
		cs = append(cs, choice{4, func() {
			if r.Chance(1, 12) {
				g.add(pgwire.FMsg{K: "Q", S1: r.Pick("", " ", "\t\n ", "   ")})
				return
			}
			key := g.newKey()
			prog := &Program{}
			if g.o.errs && r.Chance(1, 10) {
				prog.ParseErr = g.err()
				if r.Chance(1, 3) {
					// the parser fails after it had parsed some statements and hands
					// them back together with the error: the query is rejected all the same
					prog.Partial = true
					for i := r.Range(1, 2); i > 0; i-- {
						prog.Stmts = append(prog.Stmts, g.genStmt(false))
					}
				}
			} else {
				n := 1
				if g.o.multi {
					n = r.PickInt(0, 1, 1, 1, 2, 3)
				}
				for i := 0; i < n; i++ {
					prog.Stmts = append(prog.Stmts, g.genStmt(false))
				}
			}
			g.c.Programs[key] = prog
			q := key
			if r.Bool() {
				q += " " + r.Str(r.Intn(12))
			}
			if r.Chance(1, 10) {
				// bytes that are not valid UTF-8 (a query text is a byte string)
				q += " " + strings.ReplaceAll(string(r.Bytes(r.Range(1, 12))), "\x00", "\xff") + r.Pick("", "\xc3", "\xf0\x9f", "\x80")
			}
			if r.Chance(1, 12) && g.m.Limit >= 4096 {
				// leading white space, also a lot of it: the query is not blank
				q = strings.Repeat(r.Pick(" ", "\n", "\t "), r.PickInt(1, 255, 256, 257, 1000)) + q
			}
			g.add(pgwire.FMsg{K: "Q", S1: q})
			if r.Chance(1, 8) && !g.stop {
				// the same statement under two texts of equal length that collide
				// under the multiply-by-31 string hash (and differ in every block):
				// each text reaches the parser as it was sent
				var a, b string
				for n := r.Range(1, 4); n > 0; n-- {
					if r.Bool() {
						a, b = a+"Aa", b+"BB"
					} else {
						a, b = a+"BB", b+"Aa"
					}
				}
				g.add(pgwire.FMsg{K: "Q", S1: key + " " + a}, pgwire.FMsg{K: "Q", S1: key + " " + b})
			}
		}})
	}
	if g.o.copy {
		cs = append(cs, choice{2, func() {
			key := g.newKey()
			sp, seq := g.genCopyStmt()
			if g.o.copyTwice && r.Chance(1, 10) {
				// one handler, two COPY streams in a row: each CopyInResponse is
				// followed by its own data, each CopyDone ends only its own stream
				fmtc := int16(r.Intn(2))
				sp.Ops = []Op{{K: "copyin", Fmt: fmtc}, {K: "copyall"}, {K: "copyin", Fmt: fmtc}, {K: "copyall"}, {K: "complete", Tag: "COPY 2"}}
				seq = nil
				for k := 0; k < 2; k++ {
					for n := r.Range(0, 2); n > 0; n-- {
						seq = append(seq, pgwire.FMsg{K: "d", Data: r.Bytes(r.PickInt(1, 5, 40))})
					}
					seq = append(seq, pgwire.FMsg{K: "c"})
				}
			}
			g.c.Programs[key] = &Program{Stmts: []*StmtProg{sp}}
			if g.o.extended && r.Chance(1, 3) {
				bind := pgwire.FMsg{K: "B", S1: "", S2: ""}
				switch r.Intn(4) {
				case 0:
					bind.RFmt = []int16{0} // result-format codes of the Bind have no say in the COPY format
				case 1:
					bind.RFmt = []int16{1}
				}
				ms := []pgwire.FMsg{{K: "P", S1: "", S2: key}, bind, {K: "E", S1: ""}}
				ms = append(ms, seq...)
				ms = append(ms, pgwire.FMsg{K: "S"})
				g.add(ms...)
				return
			}
			g.add(append([]pgwire.FMsg{{K: "Q", S1: key}}, seq...)...)
		}})
	}
	if g.o.extended {
		cs = append(cs,
			choice{3, func() { // Parse
				key := g.newKey()
				prog := &Program{}
				switch {
				case g.o.errs && r.Chance(1, 10):
					prog.ParseErr = g.err()
					if r.Chance(1, 3) {
						prog.Partial = true
						prog.Stmts = []*StmtProg{g.genStmt(true)}
					}
				case g.o.errs && r.Chance(1, 14):
					// zero or several statements are an error for Parse
					if r.Bool() {
						prog.Stmts = []*StmtProg{g.genStmt(true), g.genStmt(true)}
					}
				default:
					prog.Stmts = []*StmtProg{g.genStmt(true)}
				}
				g.c.Programs[key] = prog
				if r.Chance(1, 15) {
					// an empty or blank query text is handed to the parser like any other
					key = r.Pick("", " ", "  \n")
				}
				m := pgwire.FMsg{K: "P", S1: g.name(nil, "s"), S2: key}
				if key != "" && strings.TrimSpace(key) != "" && r.Chance(1, 10) {
					m.S2 += " " + strings.ReplaceAll(string(r.Bytes(r.Range(1, 12))), "\x00", "\xfe") + "\xe2\x82"
				}
				if r.Chance(1, 4) {
					m.OIDs = []uint32{23, 25}[:r.Range(1, 2)] // pre-specified types the server does not read
				}
				g.add(m)
			}},
			choice{3, func() { g.add(g.genBind(g.name(nil, "p"), g.name(nil, "s"))) }},
			choice{2, func() {
				if r.Bool() {
					g.add(pgwire.FMsg{K: "D", Sub: 'S', S1: g.name(nil, "s")})
				} else {
					g.add(pgwire.FMsg{K: "D", Sub: 'P', S1: g.name(nil, "p")})
				}
			}},
			choice{3, func() {
				m := pgwire.FMsg{K: "E", S1: g.name(nil, "p")}
				if r.Chance(1, 4) {
					m.Limit = uint32(r.PickInt(1, 2, 100, 0x7fffffff)) // row limits are read and ignored
				}
				if r.Chance(1, 5) {
					m.Tail = []byte{1, 2, 3} // junk after the row limit inside the declared length
				}
				g.add(m)
			}},
			choice{3, func() { g.add(pgwire.FMsg{K: "S"}) }},
			choice{1, func() { g.add(pgwire.FMsg{K: "H"}) }},
			choice{4, func() { // a whole well-formed pipeline
				key := g.newKey()
				g.c.Programs[key] = &Program{Stmts: []*StmtProg{g.genStmt(true)}}
				sn, pn := g.name(nil, "s"), g.name(nil, "p")
				g.add(pgwire.FMsg{K: "P", S1: sn, S2: key})
				ms := []pgwire.FMsg{g.genBind(pn, sn)}
				if r.Bool() {
					ms = append(ms, pgwire.FMsg{K: "D", Sub: 'P', S1: pn})
				}
				// traffic between Bind and Execute: the parameters are windows into
				// the read buffer and must survive it
				if g.o.between {
					for n := r.Intn(4); n > 0; n-- {
						switch r.Intn(5) {
						case 0:
							ms = append(ms, pgwire.FMsg{K: "D", Sub: 'S', S1: sn})
						case 1:
							k2 := g.newKey()
							g.c.Programs[k2] = &Program{Stmts: []*StmtProg{g.genStmt(true)}}
							ms = append(ms, pgwire.FMsg{K: "P", S1: "other", S2: k2 + " " + r.Str(r.PickInt(0, 10, 3000))})
						case 2:
							ms = append(ms, pgwire.FMsg{K: "H"})
						case 3:
							if pn != "" {
								k2 := g.newKey()
								g.c.Programs[k2] = &Program{Stmts: []*StmtProg{g.genStmt(false)}}
								ms = append(ms, pgwire.FMsg{K: "Q", S1: k2 + " " + r.Str(r.PickInt(0, 100, 5000))})
							}
						case 4:
							ms = append(ms, pgwire.FMsg{K: "d", Data: r.Bytes(r.PickInt(1, 100, 4000))})
						}
					}
				}
				ms = append(ms, pgwire.FMsg{K: "E", S1: pn})
				if r.Chance(1, 4) {
					ms = append(ms, pgwire.FMsg{K: "H"}) // Flush between Execute and Sync
				}
				ms = append(ms, pgwire.FMsg{K: "S"})
				g.add(ms...)
			}},
		)
		if g.o.errs {
			cs = append(cs, choice{1, func() {
				// a name is parsed, then parsed again with a text the parser rejects:
				// the earlier definition must keep resolving
				k1, k2 := g.newKey(), g.newKey()
				g.c.Programs[k1] = &Program{Stmts: []*StmtProg{g.genStmt(true)}}
				g.c.Programs[k2] = &Program{ParseErr: g.err()}
				sn := g.name(nil, "s")
				g.add(pgwire.FMsg{K: "P", S1: sn, S2: k1}, pgwire.FMsg{K: "P", S1: sn, S2: k2}, pgwire.FMsg{K: "S"})
				if g.stop {
					return
				}
				// (the Bind is drawn only now, against the definition that is current)
				if r.Bool() {
					g.add(pgwire.FMsg{K: "D", Sub: 'S', S1: sn}, pgwire.FMsg{K: "S"})
				} else {
					g.add(g.genBind(g.name(nil, "p"), sn), pgwire.FMsg{K: "S"})
				}
			}})
		}
		if g.o.churn {
			cs = append(cs, choice{1, func() {
				// a long run of definitions: the same name parsed and closed over and
				// over, many distinct live names, or portals bound and closed - what a
				// bounded or evicting cache would get wrong
				n := r.PickInt(20, 65, 70, 130, 260)
				key := g.newKey()
				g.c.Programs[key] = &Program{Stmts: []*StmtProg{g.genStmt(true)}}
				sn := g.name(nil, "s")
				mode := r.Intn(3)
				for i := 0; i < n && !g.stop; i++ {
					switch mode {
					case 0:
						g.add(pgwire.FMsg{K: "P", S1: sn, S2: key}, pgwire.FMsg{K: "C", Sub: 'S', S1: sn})
					case 1:
						g.add(pgwire.FMsg{K: "P", S1: fmt.Sprintf("t%d", i), S2: key})
					case 2:
						if i == 0 {
							g.add(pgwire.FMsg{K: "P", S1: sn, S2: key})
						}
						pn := fmt.Sprintf("c%d", i%3)
						g.add(g.genBind(pn, sn), pgwire.FMsg{K: "C", Sub: 'P', S1: pn})
					}
					if i%16 == 15 {
						g.add(pgwire.FMsg{K: "S"})
					}
				}
				g.add(pgwire.FMsg{K: "S"})
			}})
		}
		if g.o.churn {
			cs = append(cs, choice{1, func() {
				// a small table under stress: 3-9 portals (or statements) alive at the
				// same time, then rounds of closing one, defining one again (a live or a
				// closed one), closing it, and using names - whatever fixed-size table,
				// slot array or overflow structure holds them resolves every name to its
				// latest definition and forgets what was closed
				key := g.newKey()
				sp := g.genStmt(true)
				g.c.Programs[key] = &Program{Stmts: []*StmtProg{sp}}
				sn := g.name(nil, "s")
				g.add(pgwire.FMsg{K: "P", S1: sn, S2: key})
				k := r.Range(3, 9)
				pool := make([]string, k)
				for i := range pool {
					pool[i] = fmt.Sprintf("w%d", i)
				}
				portals := r.Chance(2, 3)
				define := func(n string) {
					if portals {
						g.add(g.genBind(n, sn))
					} else {
						g.add(pgwire.FMsg{K: "P", S1: n, S2: key})
					}
				}
				closeIt := func(n string) {
					if portals {
						g.add(pgwire.FMsg{K: "C", Sub: 'P', S1: n})
					} else {
						g.add(pgwire.FMsg{K: "C", Sub: 'S', S1: n})
					}
				}
				use := func(n string) {
					if portals {
						g.add(pgwire.FMsg{K: "E", S1: n}, pgwire.FMsg{K: "S"})
					} else {
						g.add(g.genBind("", n), pgwire.FMsg{K: "E", S1: ""}, pgwire.FMsg{K: "S"})
					}
				}
				for _, n := range pool {
					if g.stop {
						return
					}
					define(n)
				}
				g.add(pgwire.FMsg{K: "S"})
				for rounds := r.Range(2, 6); rounds > 0 && !g.stop; rounds-- {
					closeIt(pool[r.Intn(k)])
					x := pool[r.Intn(k)]
					define(x)
					if r.Bool() {
						closeIt(x)
					}
					g.add(pgwire.FMsg{K: "S"})
					if g.stop {
						return
					}
					use(x)
					if r.Bool() && !g.stop {
						use(pool[r.Intn(k)])
					}
				}
			}})
		}
		if g.o.binary {
			cs = append(cs, choice{1, func() {
				// one statement bound twice with result-format lists that differ in
				// spelling or in one position, each portal described and executed
				key := g.newKey()
				sp := g.genStmt(true)
				if len(sp.Cols) < 2 {
					sp.Cols = genCols(r, r.Range(2, 4), g.oids())
					sp.Ops = []Op{{K: "row", Row: genRow(r, sp.Cols, 5, false)}, {K: "complete", Tag: "SELECT 1"}}
				}
				g.c.Programs[key] = &Program{Stmts: []*StmtProg{sp}}
				sn := g.name(nil, "s")
				g.add(pgwire.FMsg{K: "P", S1: sn, S2: key})
				nc := len(sp.Cols)
				lists := [][]int16{nil, {0}, {1}, make([]int16, nc), make([]int16, nc), make([]int16, nc)}
				lists[3][0] = 1
				for i := range lists[4] {
					lists[4][i] = 1
				}
				lists[5][nc-1] = 1
				for n := r.Range(2, 3); n > 0 && !g.stop; n-- {
					pn := g.name(nil, "p")
					b := g.genBind(pn, sn)
					b.RFmt = lists[r.Intn(len(lists))]
					g.add(b, pgwire.FMsg{K: "D", Sub: 'P', S1: pn}, pgwire.FMsg{K: "E", S1: pn}, pgwire.FMsg{K: "S"})
				}
			}})
		}
		cs = append(cs, choice{1, func() {
			// an earlier Parse repeated verbatim (same name, same query text): it is
			// judged again from scratch, whatever happened to it the first time
			var ps []pgwire.FMsg
			for _, m := range g.msgs {
				if m.K == "P" && isPlain(&m) && len(m.Tail) == 0 {
					ps = append(ps, m)
				}
			}
			if len(ps) == 0 {
				return
			}
			p := ps[r.Intn(len(ps))]
			g.add(p)
			if g.stop {
				return
			}
			switch r.Intn(3) {
			case 0:
				g.add(pgwire.FMsg{K: "S"})
			case 1:
				pn := g.name(nil, "p")
				g.add(g.genBind(pn, p.S1), pgwire.FMsg{K: "E", S1: pn}, pgwire.FMsg{K: "S"})
			case 2:
				g.add(pgwire.FMsg{K: "D", Sub: 'S', S1: p.S1}, pgwire.FMsg{K: "S"})
			}
		}})
		if g.o.params {
			cs = append(cs, choice{1, func() {
				// a statement whose parameters come from ParseParameters(query): gaps,
				// repetitions, descending order, huge indexes, ? markers; its Describe
				// must announce the independent placeholder count
				key := g.newKey()
				sp := g.genStmt(true)
				sp.Params = nil
				sp.PP = true
				var keep []Op
				for _, op := range sp.Ops {
					if op.K != "params" && op.K != "scan" {
						keep = append(keep, op)
					}
				}
				sp.Ops = keep
				g.c.Programs[key] = &Program{Stmts: []*StmtProg{sp}}
				q := key + " " + r.Pick("$1", "$5", "$2 $1", "$3 $3 $1", "? ? ?", "$300", "$40000", "$65535", "$70000 $2", "$0", "$99999999999999999999", "x$1y ?", "$65535 ?", "$65535, ?, ?", "? $65535 ?", "$65534 ? ?")
				sn := g.name(nil, "s")
				g.add(pgwire.FMsg{K: "P", S1: sn, S2: q}, pgwire.FMsg{K: "D", Sub: 'S', S1: sn}, pgwire.FMsg{K: "S"})
			}})
		}
		if g.o.closes {
			cs = append(cs, choice{1, func() {
				// a portal outlives the name of its statement: the statement is closed,
				// another one is prepared (under the same or another name), then the
				// portal is described / executed
				k1, k2 := g.newKey(), g.newKey()
				g.c.Programs[k1] = &Program{Stmts: []*StmtProg{g.genStmt(true)}}
				g.c.Programs[k2] = &Program{Stmts: []*StmtProg{g.genStmt(true)}}
				sn, pn := g.name(nil, "s"), g.name(nil, "p")
				g.add(pgwire.FMsg{K: "P", S1: sn, S2: k1})
				if g.stop {
					return
				}
				g.add(g.genBind(pn, sn), pgwire.FMsg{K: "C", Sub: 'S', S1: sn}, pgwire.FMsg{K: "P", S1: r.Pick(sn, g.name(nil, "s")), S2: k2})
				if r.Bool() {
					g.add(pgwire.FMsg{K: "S"})
				}
				if r.Bool() {
					g.add(pgwire.FMsg{K: "D", Sub: 'P', S1: pn})
				}
				g.add(pgwire.FMsg{K: "E", S1: pn}, pgwire.FMsg{K: "S"})
			}})
			cs = append(cs, choice{2, func() {
				if r.Bool() {
					g.add(pgwire.FMsg{K: "C", Sub: 'S', S1: g.name(nil, "s")})
				} else {
					g.add(pgwire.FMsg{K: "C", Sub: 'P', S1: g.name(nil, "p")})
				}
			}})
		}
	}
	if g.o.stray && g.o.copyForeign {
		// (C13's histories only: hundreds of KiB of input are too much for the
		// checks that replay a session under many segmentations or fault positions)
		cs = append(cs, choice{1, func() {
			// a long run of COPY messages outside COPY mode (a client that keeps
			// streaming after its COPY failed): ignored to the last one
			g.add(pgwire.FMsg{K: "flood", T: r.Pick("d", "d", "c", "f")[0], Data: r.Bytes(r.PickInt(0, 3, 40)), Rep: int64(r.PickInt(30, 1024, 1025, 1100, 5000))})
		}})
	}
	if g.o.sizes {
		cs = append(cs, choice{4, func() {
			L := g.m.Limit
			size := r.PickInt(1, 100, 4090, 4095, 4096, 4097, 4100, 8191, 8192, L-1, L, L-5)
			if size > L {
				size = L
			}
			switch r.Intn(4) {
			case 0, 1: // a simple query of exactly that body size
				key := g.newKey()
				g.c.Programs[key] = &Program{Stmts: []*StmtProg{g.genStmt(false)}}
				q := key
				for len(q)+1 < size {
					n := size - len(q) - 1
					if n > 64 {
						n = 64
					}
					q += " " + r.Ident(n-1)
				}
				g.add(pgwire.FMsg{K: "Q", S1: q})
			case 2: // stray CopyData of that size (ignored, but it moves the buffer window)
				g.add(pgwire.FMsg{K: "d", Data: r.Bytes(size)})
			case 3: // an oversized message skipped in several chunks
				if L < 1<<20 {
					g.add(pgwire.FMsg{K: "typed", T: 'Q', Pad: int64(L) + int64(r.PickInt(1, L, 2*L+1, 3*L)), PadPat: []byte("overwrite-attempt ")})
				}
			}
		}})
	}
	if g.o.unknown {
		cs = append(cs, choice{1, func() {
			if g.o.extended && r.Chance(1, 3) {
				// Describe / Close with a kind byte the protocol does not define
				g.add(oddTarget(r), pgwire.FMsg{K: "S"})
				return
			}
			g.add(pgwire.FMsg{K: "typed", T: byte(r.Pick("z", "p", "F", "y", "0")[0]), Data: r.Bytes(r.Intn(6))})
		}})
	}
	if g.o.stray {
		cs = append(cs, choice{1, func() {
			switch r.Intn(3) {
			case 0:
				g.add(pgwire.FMsg{K: "d", Data: r.Bytes(r.Intn(20))})
			case 1:
				g.add(pgwire.FMsg{K: "c"})
			case 2:
				g.add(pgwire.FMsg{K: "f", S1: "stray"})
			}
		}})
	}
	if g.o.oversized && g.m.Limit < 1<<20 {
		cs = append(cs, choice{1, func() {
			t := r.Pick("Q", "P", "B", "D", "E", "C")
			pad := int64(g.m.Limit) + int64(r.PickInt(1, 2, 100, g.m.Limit, g.m.Limit+1, 3*g.m.Limit+7))
			// the skipped body spells valid protocol messages: a resynchronisation
			// that is off would execute them
			pat := (&pgwire.FMsg{K: "Q", S1: "INJECTED"}).Bytes()
			g.add(pgwire.FMsg{K: "typed", T: t[0], Pad: pad, PadPat: pat})
		}})
	}
	total := 0
	for _, c := range cs {
		total += c.w
	}
	if total == 0 {
		g.stop = true
		return
	}
	pick := r.Intn(total)
	for _, c := range cs {
		if pick < c.w {
			c.fn()
			return
		}
		pick -= c.w
	}
}

// genHistory fills conn 0 of the case: startup (and password when the server
// authenticates), then a generated history, delivered in one of several ways.
func genHistory(r *Rand, c *Case, o histOpts) {
	if c.Programs == nil {
		c.Programs = map[string]*Program{}
	}
	g := &histGen{r: r, c: c, o: o}
	g.longNames = o.extended && r.Chance(1, 10)
	g.m = NewModel(c)
	g.st = g.m.Start()
	user, db := r.Ident(4), r.Ident(3)
	g.add(startupMsg(user, db))
	nstart := 1
	if c.Server.Auth == "cleartext" {
		pw := "pw" + r.Ident(3)
		c.Server.Validator = append(c.Server.Validator, AuthEntry{DB: db, User: user, PW: pw, Out: "accept"})
		g.add(pgwire.FMsg{K: "p", S1: pw})
		nstart = 2
	}
	units := r.Range(1, o.maxUnits)
	for u := 0; u < units && !g.stop; u++ {
		g.unit()
	}
	if o.extended && r.Chance(2, 3) && !g.stop {
		g.add(pgwire.FMsg{K: "S"})
	}
	if o.terminate && r.Chance(1, 3) {
		g.add(pgwire.FMsg{K: "X"})
	}
	// delivery: startup alone, then pipelined / one per step / random grouping
	var steps []Step
	steps = append(steps, Step{Msgs: g.msgs[:1]})
	if nstart == 2 {
		steps = append(steps, Step{Msgs: g.msgs[1:2]})
	}
	rest := g.msgs[nstart:]
	switch r.Intn(3) {
	case 0:
		if len(rest) > 0 {
			steps = append(steps, Step{Msgs: rest})
		}
	case 1:
		for i := range rest {
			steps = append(steps, Step{Msgs: rest[i : i+1]})
		}
	default:
		for i := 0; i < len(rest); {
			n := r.Range(1, 4)
			if i+n > len(rest) {
				n = len(rest) - i
			}
			steps = append(steps, Step{Msgs: rest[i : i+n]})
			i += n
		}
	}
	if len(steps) > nstart+1 && r.Chance(1, 8) {
		// a step that ends in the middle of a message: the client delivers the
		// rest only after it has seen the replies to the complete messages
		si := r.Range(nstart, len(steps)-2)
		if n := len(steps[si].Msgs); n > 0 {
			var size int64
			for _, ch := range steps[si].Msgs[n-1].Encode() {
				size += ch.Len()
			}
			if size > 1 && size < 1<<20 {
				steps[si].HoldBack = r.Range(1, int(size)-1)
			}
		}
	}
	if r.Chance(1, 16) {
		// a slow client: simulated time passes between some steps (the server
		// sets no time limits, so nothing may change)
		for i := range steps {
			if r.Chance(1, 3) {
				steps[i].IdleMs = r.PickInt(50, 11000, 61000, 3600000)
			}
		}
	}
	if o.prefix != "" {
		c.Conns = append(c.Conns, ConnCase{Steps: steps, Cuts: genCuts(r)})
		return
	}
	c.Conns = []ConnCase{{Steps: steps, Cuts: genCuts(r)}}
}

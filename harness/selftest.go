package harness

import "testing"

// SelfTestMain is filled in by selftest_impl.go.
func SelfTestMain(t *testing.T, root string, args []string) int { return selfTest(t, root, args) }

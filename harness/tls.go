package harness

import (
	"crypto/tls"
	"fmt"
)

func serverTLSConfig(kind string) (*tls.Config, error) {
	switch kind {
	case "empty":
		return &tls.Config{}, nil
	case "certs":
		return certConfig()
	}
	return nil, fmt.Errorf("unknown tls kind %q", kind)
}

func certConfig() (*tls.Config, error) { return nil, fmt.Errorf("tls certs: not built yet") }

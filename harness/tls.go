package harness

import (
	"bytes"
	"crypto/ed25519"
	"crypto/tls"
	"crypto/x509"
	"crypto/x509/pkix"
	"fmt"
	"io"
	"math/big"
	"net"
	"os"
	"sync"
	"time"

	"verif/pgwire"
)

type detRand struct{ r *Rand }

// Read is shared by every connection of a server through tls.Config.Rand (which
// must be safe for concurrent use). One goroutine runs at a time under the
// scheduler; the state is hidden from the race detector like the scheduler's own
// instead of being locked, so that it adds no happens-before edge between
// connections.
//
//go:norace
func (d *detRand) Read(p []byte) (int, error) {
	s := d.r.s
	for i := range p {
		s += 0x9e3779b97f4a7c15
		z := s
		z = (z ^ (z >> 30)) * 0xbf58476d1ce4e5b9
		z = (z ^ (z >> 27)) * 0x94d049bb133111eb
		p[i] = byte(z ^ (z >> 31))
	}
	d.r.s = s
	return len(p), nil
}

var (
	certMu   sync.Mutex
	certVals = map[string]tls.Certificate{}
)

var tlsFixedTime = time.Date(2020, 6, 1, 0, 0, 0, 0, time.UTC)

func testCertificate() (tls.Certificate, error) { return testCertificateValid("") }

// testCertificateValid: validity "" = 1999-2099 (valid at the fixed TLS time),
// "expired" = 1999-2010, "future" = 2050-2099. Nobody verifies the certificate
// (clients connect with verification off, as libpq's sslmode=require does).
func testCertificateValid(validity string) (tls.Certificate, error) {
	certMu.Lock()
	defer certMu.Unlock()
	if c, ok := certVals[validity]; ok {
		return c, nil
	}
	nb, na := time.Date(1999, 1, 1, 0, 0, 0, 0, time.UTC), time.Date(2099, 1, 1, 0, 0, 0, 0, time.UTC)
	switch validity {
	case "expired":
		na = time.Date(2010, 1, 1, 0, 0, 0, 0, time.UTC)
	case "future":
		nb = time.Date(2050, 1, 1, 0, 0, 0, 0, time.UTC)
	}
	seed := bytes.Repeat([]byte{0x42}, ed25519.SeedSize)
	priv := ed25519.NewKeyFromSeed(seed)
	tmpl := &x509.Certificate{
		SerialNumber: big.NewInt(1),
		Subject:      pkix.Name{CommonName: "psql-wire.sim"},
		NotBefore:    nb,
		NotAfter:     na,
		KeyUsage:     x509.KeyUsageDigitalSignature,
		ExtKeyUsage:  []x509.ExtKeyUsage{x509.ExtKeyUsageServerAuth},
		DNSNames:     []string{"psql-wire.sim"},
	}
	der, err := x509.CreateCertificate(&detRand{NewRand(7)}, tmpl, tmpl, priv.Public(), priv)
	if err != nil {
		return tls.Certificate{}, err
	}
	c := tls.Certificate{Certificate: [][]byte{der}, PrivateKey: priv}
	certVals[validity] = c
	return c, nil
}

func serverTLSConfig(kind, validity string) (*tls.Config, error) {
	switch kind {
	case "empty":
		return &tls.Config{}, nil
	case "certs":
		cert, err := testCertificateValid(validity)
		if err != nil {
			return nil, err
		}
		return &tls.Config{
			Certificates: []tls.Certificate{cert},
			Rand:         &detRand{NewRand(1001)},
			Time:         func() time.Time { return tlsFixedTime },
			MinVersion:   tls.VersionTLS12,
		}, nil
	}
	return nil, fmt.Errorf("unknown tls kind %q", kind)
}

// ---------------------------------------------------------------------------
// duplex mode of SimConn: a real client goroutine (crypto/tls) on the other
// end. Both directions are queues owned by the SimConn; every operation of
// either party is a schedule point.

//go:norace
func (c *SimConn) c2sReady() bool { return len(c.c2s) > 0 || c.c2sClosed }

//go:norace
func (c *SimConn) closedNR() bool { return c.Closed > 0 }

//go:norace
func (c *SimConn) s2cReady() bool { return len(c.Raw) > c.s2cRead || c.Closed > 0 }

func (c *SimConn) duplexRead(p []byte) (int, error) {
	c.rt.K.Yield(c.task, "read")
	// dmu orders the accesses of the server goroutine and of the scripted client
	// goroutine to the queues they share (for the race detector: the scheduler's
	// own hand-over is hidden from it on purpose); it links each connection with
	// its own client only, so it adds no happens-before edge between connections
	// (the mutex is never held across a scheduler block: a task that is retired
	// while it waits leaves through Goexit, which runs deferred calls)
	if !c.closedNR() && !c.c2sReady() {
		c.dmu.Lock()
		c.Started = true
		c.rec("read-wait", "")
		c.Quiesce = append(c.Quiesce, len(c.Out))
		c.dmu.Unlock()
		c.rt.K.Block(c.task, "read-wait", c.c2sReady)
	}
	c.dmu.Lock()
	defer c.dmu.Unlock()
	c.Started = true
	c.ops++
	if c.Closed > 0 {
		c.AfterEnd++
		if c.AfterEnd > afterEndBudget {
			c.wedge("reads continue after the server closed the connection")
		}
		return 0, net.ErrClosed
	}
	if c.expired(c.rdl, "read") {
		return 0, os.ErrDeadlineExceeded
	}
	if len(c.c2s) == 0 {
		c.AfterEnd++
		if c.AfterEnd > afterEndBudget {
			c.wedge("reads continue after end of input")
		}
		c.rec("read", "eof")
		return 0, io.EOF
	}
	n := len(p)
	if len(c.cc.Cuts) > 0 {
		if cut := c.cc.Cuts[c.reads%len(c.cc.Cuts)]; cut > 0 && cut < n {
			n = cut
		}
	}
	c.reads++
	if n > len(c.c2s) {
		n = len(c.c2s)
	}
	copy(p, c.c2s[:n])
	c.c2s = c.c2s[n:]
	c.inBytes += int64(n)
	return n, nil
}

// clientEnd is the client's net.Conn.
type clientEnd struct {
	c    *SimConn
	task int
}

func (e *clientEnd) Write(p []byte) (int, error) {
	e.c.rt.K.Yield(e.task, "cwrite")
	e.c.dmu.Lock()
	defer e.c.dmu.Unlock()
	if e.c.Closed > 0 {
		return 0, net.ErrClosed
	}
	e.c.c2s = append(e.c.c2s, p...)
	e.c.TapC2S = append(e.c.TapC2S, p...)
	return len(p), nil
}

func (e *clientEnd) Read(p []byte) (int, error) {
	e.c.rt.K.Yield(e.task, "cread")
	if !e.c.s2cReady() {
		e.c.rt.K.Block(e.task, "cread-wait", e.c.s2cReady)
	}
	e.c.dmu.Lock()
	defer e.c.dmu.Unlock()
	if len(e.c.Raw) <= e.c.s2cRead {
		return 0, io.EOF
	}
	n := copy(p, e.c.Raw[e.c.s2cRead:])
	e.c.s2cRead += n
	return n, nil
}

func (e *clientEnd) Close() error {
	e.c.rt.K.Yield(e.task, "cclose")
	e.c.dmu.Lock()
	defer e.c.dmu.Unlock()
	e.c.c2sClosed = true
	return nil
}
func (e *clientEnd) LocalAddr() net.Addr                { return SimAddr{ID: -3} }
func (e *clientEnd) RemoteAddr() net.Addr               { return SimAddr{ID: -4} }
func (e *clientEnd) SetDeadline(t time.Time) error      { return nil }
func (e *clientEnd) SetReadDeadline(t time.Time) error  { return nil }
func (e *clientEnd) SetWriteDeadline(t time.Time) error { return nil }

// runTLSClient is the scripted client goroutine of a duplex connection: it
// sends the SSLRequest (optionally with plaintext stuffed behind it), reads
// the one-byte answer, performs the TLS handshake and then plays the
// connection's steps inside TLS, reading after each step exactly the number of
// plaintext bytes the reference (plaintext) run produced for that step.
func runTLSClient(rt *Runtime, cs *connState, task int) {
	cc := cs.cc
	tc := cc.TLS
	end := &clientEnd{c: cs.SimConn, task: task}
	note := func(k, s string) {
		if rt.isFrozen() {
			return
		}
		cs.ClientEvents = append(cs.ClientEvents, Event{Seq: rt.K.Seq(), K: k, S: s})
	}
	stayOpen := false
	defer func() {
		if r := recover(); r != nil {
			note("client-panic", fmt.Sprint(r))
		}
		if !stayOpen {
			end.Close()
		}
		note("client-done", "")
	}()
	rt.K.Yield(task, "client.start")
	first := (&pgwire.FMsg{K: "ssl", Data: tc.SSLBody}).Bytes()
	if tc.PreSplit || len(tc.Pre) == 0 {
		end.Write(first) //nolint:errcheck
		if len(tc.Pre) > 0 {
			end.Write(tc.Pre) //nolint:errcheck
		}
	} else {
		end.Write(append(append([]byte{}, first...), tc.Pre...)) //nolint:errcheck
	}
	var ans [1]byte
	if _, err := io.ReadFull(end, ans[:]); err != nil {
		note("ssl-answer", "none: "+err.Error())
		return
	}
	note("ssl-answer", string(ans[:]))
	cs.SSLAnswer = ans[0]
	if ans[0] != 'S' {
		return
	}
	if tc.SSLTwice {
		// a second SSLRequest in plaintext instead of the ClientHello
		end.Write(first) //nolint:errcheck
	}
	if tc.AbortAt > 0 {
		// the peer vanishes in the middle of the handshake
		hello := make([]byte, tc.AbortAt)
		copy(hello, []byte{22, 3, 1, 0, 200, 1, 0, 0, 196, 3, 3})
		end.Write(hello) //nolint:errcheck
		note("client-abort", "")
		return
	}
	cfg := &tls.Config{InsecureSkipVerify: true, Rand: &detRand{NewRand(rt.C.Sub ^ 0x7715)}, Time: func() time.Time { return tlsFixedTime },
		MinVersion: tc.MinVer, MaxVersion: tc.MaxVer, ServerName: "psql-wire.sim"}
	if tc.Cert {
		if cert, err := testCertificate(); err == nil {
			cfg.Certificates = []tls.Certificate{cert}
		}
	}
	conn := tls.Client(end, cfg)
	if err := conn.Handshake(); err != nil {
		note("handshake", "failed: "+err.Error())
		return
	}
	note("handshake", fmt.Sprintf("ok version=%x", conn.ConnectionState().Version))
	cs.TLSUp = true
	for si, st := range cc.Steps {
		cs.SimConn.idle(st.IdleMs)
		var buf []byte
		for i := range st.Msgs {
			buf = append(buf, st.Msgs[i].Bytes()...)
		}
		if len(buf) > 0 {
			if _, err := conn.Write(buf); err != nil {
				note("client-write", "failed: "+err.Error())
				return
			}
		}
		if si == len(cc.Steps)-1 && !tc.StayOpen {
			// like the inline client, the peer ends its input right after the
			// last step (so a handler still reading COPY data sees the end of
			// input at the same logical point as in the plaintext run)
			break
		}
		want := 0
		if si < len(tc.StepBytes) {
			want = tc.StepBytes[si]
		}
		got := make([]byte, want)
		n, err := io.ReadFull(conn, got)
		cs.Plain = append(cs.Plain, got[:n]...)
		if err != nil {
			note("client-read", fmt.Sprintf("step %d: got %d of %d bytes: %v", si, n, want, err))
			return
		}
	}
	stayOpen = tc.StayOpen
	// the server must have nothing more to say: close our side and drain
	conn.CloseWrite() //nolint:errcheck
	rest, _ := io.ReadAll(conn)
	cs.Plain = append(cs.Plain, rest...)
	if len(rest) > 0 {
		note("client-read", fmt.Sprintf("%d surplus bytes after the last step", len(rest)))
	}
}

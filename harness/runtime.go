package harness

import (
	"context"
	"crypto/tls"
	"errors"
	"fmt"
	"github.com/jackc/pgx/v5/pgtype"
	"log/slog"
	"os"
	"runtime"
	"sort"
	"strings"
	"sync"
	"sync/atomic"
	"time"

	wire "github.com/jeroenrinzema/psql-wire"
	"github.com/jeroenrinzema/psql-wire/pkg/buffer"
	"github.com/jeroenrinzema/psql-wire/pkg/types"
)

// The library's hook variables are set once, before any goroutine of a run
// exists; they dispatch to the kernel of the current run through a pointer
// that is only touched from //go:norace functions.
var curKernel *Kernel

//go:norace
func setCurKernel(k *Kernel) { curKernel = k }

//go:norace
func hookYield(point string) {
	if k := curKernel; k != nil {
		k.YieldHook(point)
	}
}

//go:norace
func hookLock(try func() bool, lock func(), point string) {
	if k := curKernel; k != nil {
		k.LockHook(try, lock, point)
		return
	}
	if rt := curInline; rt != nil {
		// engine E1: one connection goroutine runs at a time, so a mutex that is
		// not free now is held by a goroutine that will never run again (a
		// wedged or abandoned connection): report a lock deadlock instead of
		// blocking in the Go runtime, which would stall the simulation
		if try() {
			return
		}
		if rt.isFrozen() {
			// teardown: several goroutines really run at the same time (the
			// teardown's Close call, Serve returning, released connections), so a
			// mutex may be busy for a moment; wait on the bubble's clock - a
			// durable block - and retry before calling it a deadlock
			for i := 0; i < 200; i++ {
				bubbleSleep(time.Microsecond)
				if try() {
					return
				}
			}
			runtime.Goexit()
		}
		// a goroutine the code under test started on its own may hold the mutex
		// for a while (the connection's goroutine is asleep inside a handler, say):
		// wait on the simulated clock, doubling up to hours, before calling it a
		// deadlock. The time is free, and a mutex whose holder never runs again
		// stays busy however long one waits.
		for d := time.Microsecond; d < 3*time.Hour; d *= 2 {
			bubbleSleep(d)
			if try() {
				return
			}
			if rt.isFrozen() {
				runtime.Goexit()
			}
		}
		rt.lockDead = point
		<-rt.never
		runtime.Goexit()
	}
	lock()
}

var curInline *Runtime

//go:norace
func setCurInline(rt *Runtime) { curInline = rt }

func init() {
	wire.VerifYield = hookYield
	wire.VerifLock = hookLock
	wire.VerifGoTop = hookGoTop
	wire.VerifPending = hookPending
}

// hookPending: waiting writers per mutex (E2 only; E1 has one goroutine per
// connection and reports a busy mutex at once).
//
//go:norace
func hookPending(id any, op int) bool {
	if k := curKernel; k != nil {
		return k.Pending(id, op)
	}
	return false
}

// timeoutError is what a middleware that waited for something returns.
type timeoutError struct{ msg string }

func (e timeoutError) Error() string   { return e.msg }
func (e timeoutError) Timeout() bool   { return true }
func (e timeoutError) Temporary() bool { return true }

type discardHandler struct{}

func (discardHandler) Enabled(context.Context, slog.Level) bool  { return false }
func (discardHandler) Handle(context.Context, slog.Record) error { return nil }
func (h discardHandler) WithAttrs([]slog.Attr) slog.Handler      { return h }
func (h discardHandler) WithGroup(string) slog.Handler           { return h }

type retained struct {
	name   string
	s      string
	b      []byte
	cp     []byte
	params []wire.Parameter // the slice handed to the statement function, retained as such
	pi     int
	m      wire.Parameters // a parameter map retained as the object that was handed out
}

// connState is the harness-side state of one connection (only touched by that
// connection's goroutine during the run).
type connState struct {
	*SimConn
	retainedVals  []retained
	Corrupt       []string
	Incons        []string // what a callback found inconsistent by itself (e.g. a repeated Scan)
	inHandler     int
	cmdCtx        context.Context
	EndCtx        string // "" / "live" / "done": state of the last command\'s context once the connection had ended (sampled before teardown)
	cancelSession context.CancelFunc
	reusedErr     *mutableErr
	parsed        map[string]wire.PreparedStatements
	reader        *buffer.Reader
	CapSeen       []int
	ReuseTail     int
	Realloc       int
}

func (c *connState) retain(name, s string) {
	if !c.rt.C.Retain() {
		return
	}
	c.retainedVals = append(c.retainedVals, retained{name: name, s: s, cp: []byte(s)})
}

func (c *connState) retainBytes(name string, b []byte) {
	if !c.rt.C.Retain() || b == nil {
		return
	}
	c.retainedVals = append(c.retainedVals, retained{name: name, b: b, cp: append([]byte{}, b...)})
}

// retainParams keeps the []Parameter slice exactly as it was handed to the
// statement function (a holder may keep the slice, not only the value bytes).
func (c *connState) retainParams(params []wire.Parameter) {
	if !c.rt.C.Retain() {
		return
	}
	for i := range params {
		if params[i].Value() == nil {
			continue
		}
		c.retainedVals = append(c.retainedVals, retained{name: fmt.Sprintf("parameter-slice[%d]", i), params: params, pi: i, cp: append([]byte{}, params[i].Value()...)})
	}
}

// retainMap keeps the client-parameter map exactly as a callback received it
// (a holder may keep the map, not only the strings in it).
func (c *connState) retainMap(name string, m wire.Parameters) {
	if !c.rt.C.Retain() || m == nil {
		return
	}
	for _, r := range c.retainedVals {
		if r.m != nil && r.name == name {
			return
		}
	}
	c.retainedVals = append(c.retainedVals, retained{name: name, m: m, cp: []byte(sortedParams(m))})
}

func (c *connState) checkRetained(where string) {
	for _, r := range c.retainedVals {
		cur := r.s
		if r.b != nil {
			cur = string(r.b)
		}
		if r.m != nil {
			cur = sortedParams(r.m)
		}
		if r.params != nil {
			cur = string(r.params[r.pi].Value())
		}
		if cur != string(r.cp) {
			msg := fmt.Sprintf("%s changed (seen at %s): was %q now %q", r.name, where, trunc(string(r.cp), 48), trunc(cur, 48))
			c.Corrupt = append(c.Corrupt, msg)
			c.rec("retain-corrupt", msg)
		}
	}
	if c.reader != nil {
		// white-box probe (C18/C10): watch the read buffer window move
		cp := cap(c.reader.Msg)
		if n := len(c.CapSeen); n > 0 {
			if cp < c.CapSeen[n-1] {
				c.ReuseTail++
			} else if cp > c.CapSeen[n-1] {
				c.Realloc++
			}
		}
		c.CapSeen = append(c.CapSeen, cp)
	}
}

func trunc(s string, n int) string {
	if len(s) > n {
		return s[:n] + "..."
	}
	return s
}

// Retain reports whether callbacks should retain what they are given (C18).
func (c *Case) Retain() bool { return c.Prop == "C18" || c.Variant == "retain" }

// Inspect reports whether callbacks record their context (C12, C19).
func (c *Case) Inspect() bool { return c.Prop == "C12" || c.Prop == "C19" || c.Variant == "inspect" }

// Runtime is the state of one simulated run.
type Runtime struct {
	valHits     [8]int
	C           *Case
	K           *Kernel
	Conns       []*connState
	L           *SimListener
	Srv         *wire.Server
	acceptTask  int
	frozen      bool
	never       chan struct{}
	serveDone   bool
	serveErr    error
	L2          *SimListener // second listener of the same Server (SchedCase.Listeners > 1)
	serve2Done  bool
	serve2Err   error
	userParams  wire.Parameters
	paramsCopy  map[string]string
	userParams2 wire.Parameters
	paramsCopy2 map[string]string
	closerEv    [][]Event
	closerMu    []*sync.Mutex // one per Close caller: orders its event log before the reader, and nothing else
	closerTask  []int
	Panics      []string
	lockDead    string
	// colCache: the column descriptions of all statement programs, built before
	// the server starts and only read afterwards (keyed by the program's column
	// list); shared by all connections like a real handler's table descriptions
	colCache map[*ColSpec]wire.Columns
	fallback *Program
}

type mwKey int

func (rt *Runtime) connOf(ctx context.Context) *connState {
	a, ok := wire.RemoteAddress(ctx).(SimAddr)
	if !ok || a.ID < 0 || a.ID >= len(rt.Conns) {
		panic("harness: callback context carries no simulated remote address")
	}
	return rt.Conns[a.ID]
}

func sortedParams(p wire.Parameters) string {
	if p == nil {
		return "<nil>"
	}
	keys := make([]string, 0, len(p))
	for k := range p {
		keys = append(keys, string(k))
	}
	sort.Strings(keys)
	var sb strings.Builder
	for _, k := range keys {
		fmt.Fprintf(&sb, "%q=%q;", k, p[wire.ParameterStatus(k)])
	}
	return sb.String()
}

func (rt *Runtime) inspectCtx(c *connState, ctx context.Context, where string) {
	if !rt.C.Inspect() {
		return
	}
	var mws []string
	for i := range rt.C.Server.MW {
		if v := ctx.Value(mwKey(i)); v != nil {
			mws = append(mws, fmt.Sprint(i))
		}
	}
	prev := "none"
	if c.cmdCtx != nil && (c.cmdCtx != ctx || where == "parse") {
		// (a parser call always opens a new command: whatever context value an
		// earlier callback was given - even the very same object, handed out
		// again - belonged to a command that has ended)
		// the context a callback of an EARLIER command received (callbacks of one
		// command share their context value)
		prev = fmt.Sprint(c.cmdCtx.Err() != nil)
	}
	ra := "<nil>"
	if a := wire.RemoteAddress(ctx); a != nil {
		ra = a.String()
	}
	c.rec("ctx", fmt.Sprintf("%s mw=[%s] client={%s} server={%s} remote=%s typemap=%v user=%q live=%v prevdone=%s",
		where, strings.Join(mws, ","), sortedParams(wire.ClientParameters(ctx)), sortedParams(wire.ServerParameters(ctx)),
		ra, wire.TypeMap(ctx) != nil, wire.AuthenticatedUsername(ctx), ctx.Err() == nil, prev))
}

// valHit counts the matches of a validator entry (one goroutine runs at a
// time under both engines; hidden from the race detector like the kernel's own
// state, so that it adds no happens-before edge between connections).
//
//go:norace
func (rt *Runtime) valHit(i int) int {
	if i >= len(rt.valHits) {
		return 0
	}
	n := rt.valHits[i]
	rt.valHits[i]++
	return n
}

// expectedPanic is the value a scripted user callback panics with. While one is
// in flight, the outermost deferred call of the library's goroutines (spliced in
// by cmd/instrument) recovers it: the panic has crossed every frame of the
// library - where a real process would have died - and the run records that.
type expectedPanic struct{ c *connState }

var panicInFlight atomic.Bool

func hookGoTop(r any) bool {
	if r == nil {
		return panicInFlight.Load()
	}
	ep, ok := r.(expectedPanic)
	if !ok {
		return false
	}
	panicInFlight.Store(false)
	ep.c.rec("goroutine-died", "a panic of a user callback reached the top of the connection's goroutine")
	return true
}

func (rt *Runtime) validator(ctx context.Context, database, username, password string) (context.Context, bool, error) {
	c := rt.connOf(ctx)
	rt.K.Yield(c.task, "cb.validator")
	out := rt.C.Server.DefaultAuth
	if out == "" {
		out = "reject"
	}
	for i, e := range rt.C.Server.Validator {
		if e.DB == database && e.User == username && e.PW == password {
			out = e.Out
			if e.SleepMs > 0 {
				d := time.Duration(e.SleepMs) * time.Millisecond
				simSleepUntil.Store(time.Now().Add(d).UnixNano())
				simSleepers.Add(1)
				time.Sleep(d)
				simSleepers.Add(-1)
			}
			if rt.valHit(i) > 0 && e.Next != "" {
				out = e.Next
			}
			break
		}
	}
	c.rec("validator", fmt.Sprintf("db=%q user=%q pw=%q -> %s", database, username, password, out))
	// (a second schedule point, before the verdict is handed back: Close can be
	// placed between the moment the validator was entered and its return)
	rt.K.Yield(c.task, "cb.validator.ret")
	c.retainMap("client parameters as the auth strategy received them", wire.ClientParameters(ctx))
	c.retain("password", password)
	c.retain("auth-user", username)
	c.retain("auth-db", database)
	if rt.C.Server.ValCtxDone && out != "accept" {
		lookup, cancel := context.WithCancel(ctx)
		cancel()
		ctx = lookup
	}
	switch out {
	case "accept":
		return ctx, true, nil
	case "panic":
		// a faulty validator: it panics for these credentials
		panicInFlight.Store(true)
		panic(expectedPanic{c})
	case "fail":
		return ctx, false, errors.New("validator backend unavailable")
	case "failtrue":
		// the verdict flag is set but the validator failed (e.g. a later audit
		// step): an error means the credentials were not accepted
		return ctx, true, errors.New("validator failed after matching the password")
	}
	return ctx, false, nil
}

// userStatements / userPortals are what an application's own cache types look
// like: they embed the default implementations (and so inherit Close).
type userStatements struct{ *wire.DefaultStatementCache }
type userPortals struct {
	*wire.DefaultPortalCache
	rt *Runtime
}

// Bind is a user callback like any other: what it is handed (the parameter
// slice and the value bytes in it) may be kept by the application's cache.
func (u *userPortals) Bind(ctx context.Context, name string, stmt *wire.Statement, params []wire.Parameter, formats []wire.FormatCode) error {
	if u.rt != nil {
		c := u.rt.connOf(ctx)
		c.checkRetained("portal cache Bind")
		c.retainParams(params)
	}
	return u.DefaultPortalCache.Bind(ctx, name, stmt, params, formats)
}

func (rt *Runtime) buildServer() (*wire.Server, error) {
	cfg := &rt.C.Server
	opts := []wire.OptionFn{wire.Logger(slog.New(discardHandler{}))}
	if cfg.Limit != 0 {
		opts = append(opts, wire.MessageBufferSize(cfg.Limit))
	}
	if cfg.AuthFirst == "accept-all" && cfg.Auth != "" {
		opts = append(opts, wire.SessionAuthStrategy(func(ctx context.Context, w *buffer.Writer, r *buffer.Reader) (context.Context, error) {
			c := rt.connOf(ctx)
			c.rec("auth-custom", "replaced accept-all strategy ran")
			w.Start(types.ServerAuth)
			w.AddInt32(0)
			return ctx, w.End()
		}))
	}
	switch cfg.Auth {
	case "":
	case "cleartext":
		opts = append(opts, wire.SessionAuthStrategy(wire.ClearTextPassword(rt.validator)))
	case "custom-fail":
		opts = append(opts, wire.SessionAuthStrategy(func(ctx context.Context, w *buffer.Writer, r *buffer.Reader) (context.Context, error) {
			c := rt.connOf(ctx)
			c.rec("auth-custom", "fail")
			return ctx, errors.New("custom strategy refuses")
		}))
	case "passthrough":
		opts = append(opts, wire.SessionAuthStrategy(func(ctx context.Context, w *buffer.Writer, r *buffer.Reader) (context.Context, error) {
			c := rt.connOf(ctx)
			c.reader = r
			c.retainMap("client parameters as the auth strategy received them", wire.ClientParameters(ctx))
			c.rec("auth-custom", "passthrough")
			w.Start(types.ServerAuth)
			w.AddInt32(0)
			return ctx, w.End()
		}))
	default:
		return nil, fmt.Errorf("unknown auth %q", cfg.Auth)
	}
	if cfg.Params != nil || cfg.HasParams {
		rt.userParams = wire.Parameters{}
		rt.paramsCopy = map[string]string{}
		for k, v := range cfg.Params {
			rt.userParams[wire.ParameterStatus(k)] = v
			rt.paramsCopy[k] = v
		}
		opts = append(opts, wire.GlobalParameters(rt.userParams))
		if cfg.Params2 != nil {
			// the option given a second time (an embedding package's defaults
			// followed by the application's own map): both maps stay the user's
			rt.userParams2 = wire.Parameters{}
			rt.paramsCopy2 = map[string]string{}
			for k, v := range cfg.Params2 {
				rt.userParams2[wire.ParameterStatus(k)] = v
				rt.paramsCopy2[k] = v
			}
			opts = append(opts, wire.GlobalParameters(rt.userParams2))
		}
	}
	if cfg.Version != "" {
		opts = append(opts, wire.Version(cfg.Version))
	}
	if cfg.CloseHook {
		opts = append(opts, wire.CloseConn(func(ctx context.Context) error {
			c := rt.connOf(ctx)
			c.rec("closeconn", "")
			return nil
		}))
	}
	for i := 0; i < cfg.ExtendTypes; i++ {
		if cfg.ExtendReal {
			opts = append(opts, wire.ExtendTypes(func(m *pgtype.Map) {
				m.RegisterType(&pgtype.Type{Name: "text", OID: pgtype.TextOID, Codec: pgtype.ByteaCodec{}})
				m.RegisterType(&pgtype.Type{Name: "varchar", OID: pgtype.VarcharOID, Codec: pgtype.ByteaCodec{}})
				m.RegisterType(&pgtype.Type{Name: "timestamp", OID: pgtype.TimestampOID, Codec: &pgtype.TimestamptzCodec{}})
				m.RegisterType(&pgtype.Type{Name: "numeric", OID: pgtype.NumericOID, Codec: pgtype.TextCodec{}})
				m.RegisterType(&pgtype.Type{Name: "sim_extra", OID: 90001, Codec: pgtype.TextCodec{}})
			}))
			continue
		}
		opts = append(opts, wire.ExtendTypes(func(*pgtype.Map) {}))
	}
	if cfg.UserCaches {
		opts = append(opts, wire.Statements(func() wire.StatementCache { return &userStatements{&wire.DefaultStatementCache{}} }),
			wire.Portals(func() wire.PortalCache { return &userPortals{DefaultPortalCache: &wire.DefaultPortalCache{}, rt: rt} }))
	}
	var lateTLS func(*wire.Server)
	if cfg.TLS != "" {
		tc, err := serverTLSConfig(cfg.TLS, cfg.TLSCertValidity)
		if err != nil {
			return nil, err
		}
		switch cfg.TLSClientAuth {
		case "request":
			tc.ClientAuth = tls.RequestClientCert
		case "require-any":
			tc.ClientAuth = tls.RequireAnyClientCert
		}
		switch cfg.TLSVia {
		case "field":
			lateTLS = func(srv *wire.Server) { srv.TLSConfig = tc }
		case "late-cert":
			certs := tc.Certificates
			tc.Certificates = nil
			opts = append(opts, wire.TLSConfig(tc))
			lateTLS = func(srv *wire.Server) { tc.Certificates = certs }
		default:
			opts = append(opts, wire.TLSConfig(tc))
		}
	}
	for i, mw := range cfg.MW {
		i, mw := i, mw
		opts = append(opts, wire.SessionMiddleware(func(ctx context.Context) (context.Context, error) {
			c := rt.connOf(ctx)
			rt.K.Yield(c.task, "cb.mw")
			var seen []string
			for j := range cfg.MW {
				if ctx.Value(mwKey(j)) != nil {
					seen = append(seen, fmt.Sprint(j))
				}
			}
			c.rec("mw", fmt.Sprintf("%d sees=[%s] fail=%v", i, strings.Join(seen, ","), mw.Fail))
			rt.inspectCtx(c, ctx, "mw")
			if mw.Fail {
				if mw.Transient {
					return ctx, timeoutError{fmt.Sprintf("middleware %d timed out", i)}
				}
				return ctx, fmt.Errorf("middleware %d refuses", i)
			}
			ctx = context.WithValue(ctx, mwKey(i), i+1)
			if mw.Cancel {
				ctx, c.cancelSession = context.WithCancel(ctx)
			}
			if mw.Done {
				ended, cancel := context.WithCancel(ctx)
				cancel()
				ctx = ended
			}
			return ctx, nil
		}))
	}
	if cfg.Term != "" {
		opts = append(opts, wire.TerminateConn(func(ctx context.Context) error {
			c := rt.connOf(ctx)
			c.rec("terminate", cfg.Term)
			if cfg.Term == "fail" {
				return errors.New("terminate hook fails")
			}
			return nil
		}))
	}
	var parse wire.ParseFn
	if !cfg.NilParse {
		parse = rt.parseFn
	}
	sibling := func() {
		own := wire.SessionMiddleware(func(ctx context.Context) (context.Context, error) {
			// (the sibling never serves: if this runs, it runs on a connection of the
			// server under test)
			if a, ok := wire.RemoteAddress(ctx).(SimAddr); ok && a.ID >= 0 && a.ID < len(rt.Conns) {
				rt.Conns[a.ID].rec("mw", "sibling server's middleware")
			}
			return context.WithValue(ctx, mwKey(1000), 1), nil
		})
		_, _ = wire.NewServer(parse, append([]wire.OptionFn{own}, opts...)...)
	}
	if cfg.Sibling == "before" {
		sibling()
	}
	srv, err := wire.NewServer(parse, opts...)
	if err == nil && lateTLS != nil {
		lateTLS(srv)
	}
	if cfg.Sibling == "after" {
		sibling()
	}
	return srv, err
}

// Result is everything a run produced; oracles are functions of (Case, Result).
type Result struct {
	Conns         []*connState
	ServeReturned bool
	// PreClose: outcome of the Close call made before Serve (SchedCase.CloseFirst)
	DirtyWhy                string // why the run left goroutines behind
	PreClose                string
	ServeDoneBeforeTeardown bool
	ServeErr                string
	Outcome                 int // RunIdle / RunBudget / RunLockDead (E2)
	Stuck                   []string
	Dirty                   bool // goroutines left behind: the bubble must be abandoned
	CloseBlocked            bool // final Close did not return
	Schedule                []int32
	Trace                   uint64
	Decisions               int
	CloserEvents            [][]Event
	Panics                  []string
	ParamsMutated           string
	LockWaits               int
	Adopted                 int // goroutines the code under test started on its own that became scheduler tasks
	HoldsForced             int
	Accepts                 int
	BuildErr                string
	InCmd                   []bool     // E2: per task, inside an admitted command when the run ended
	LockDead                string     // E1: a connection blocked forever on a library mutex (instrumented Lock site)
	Points                  [][]string // E2: schedule points seen per task (task 0 = accept loop, then connections, then closers)
	NConns                  int
}

// snapshotClosed records, before teardown releases parked goroutines (whose
// deferred Close calls then run), whether the server had closed each connection.
//
//go:norace
func (rt *Runtime) snapshotClosed() {
	for _, c := range rt.Conns {
		c.ClosedBefore = c.Closed
		if c.Closed > 0 && c.cmdCtx != nil {
			// the connection has ended by itself: the context of its last command
			c.EndCtx = "live"
			if c.cmdCtx.Err() != nil {
				c.EndCtx = "done"
			}
		}
	}
}

//go:norace
func (rt *Runtime) setFrozen() { rt.frozen = true }

//go:norace
func (rt *Runtime) isFrozen() bool { return rt.frozen }

func newRuntime(c *Case, scheduled bool) *Runtime {
	rt := &Runtime{C: c, K: NewKernel(scheduled), never: make(chan struct{})}
	rt.colCache = map[*ColSpec]wire.Columns{}
	rt.fallback = FallbackProgram()
	rt.colCache[&rt.fallback.Stmts[0].Cols[0]] = buildColumns(rt.fallback.Stmts[0].Cols)
	for _, p := range c.Programs {
		if p == nil {
			continue
		}
		for _, sp := range p.Stmts {
			if sp != nil && len(sp.Cols) > 0 {
				rt.colCache[&sp.Cols[0]] = buildColumns(sp.Cols)
			}
		}
	}
	simSleepers.Store(0)
	rt.acceptTask = rt.K.AddTask("accept")
	rt.L = newSimListener(rt)
	rt.L.task = rt.acceptTask
	for i := range c.Conns {
		sc := newSimConn(rt, i, &c.Conns[i])
		sc.task = rt.K.AddTask(fmt.Sprintf("conn%d", i))
		rt.Conns = append(rt.Conns, &connState{SimConn: sc})
	}
	return rt
}

func (rt *Runtime) finish(res *Result) {
	res.Conns = rt.Conns
	res.ServeReturned = rt.serveDone
	if rt.serveErr != nil {
		res.ServeErr = rt.serveErr.Error()
	}
	if rt.L2 != nil {
		res.ServeReturned = res.ServeReturned && rt.serve2Done
		if rt.serve2Err != nil {
			res.ServeErr += " second Serve: " + rt.serve2Err.Error()
		}
	}
	res.Accepts = rt.L.Accepts
	res.Panics = rt.Panics
	res.ParamsMutated = paramsMutated(rt.userParams, rt.paramsCopy)
	if m := paramsMutated(rt.userParams2, rt.paramsCopy2); m != "" && res.ParamsMutated == "" {
		res.ParamsMutated = "second map: " + m
	}
}

// paramsMutated compares a user-supplied parameter map with the copy taken
// before the server saw it.
func paramsMutated(user wire.Parameters, copy map[string]string) string {
	if copy == nil {
		return ""
	}
	if len(user) != len(copy) {
		return fmt.Sprintf("size %d -> %d: %s", len(copy), len(user), sortedParams(user))
	}
	keys := make([]string, 0, len(copy))
	for k := range copy {
		keys = append(keys, k)
	}
	sort.Strings(keys)
	for _, k := range keys {
		if got, ok := user[wire.ParameterStatus(k)]; !ok || got != copy[k] {
			return fmt.Sprintf("key %q: %q -> %q (present=%v)", k, copy[k], got, ok)
		}
	}
	return ""
}

// teardown stops the server after the decided part of the run: it freezes the
// recorder, releases wedged connections and closes the server.
func (rt *Runtime) teardown(res *Result) {
	if !rt.K.enabled {
		rt.snapshotClosed()
	}
	rt.setFrozen()
	setCurKernel(nil)
	// lock acquisition stays cooperative during teardown: a goroutine that was
	// released through Goexit may have leaked a library mutex, and a real
	// blocking Lock() here would stall synctest.Wait() for good
	setCurInline(rt)
	defer setCurInline(nil)
	res.LockDead = rt.lockDead
	close(rt.never)
	bubbleWait()
	done := make(chan struct{})
	go func() {
		defer func() { recover() }()
		rt.Srv.Close() //nolint:errcheck
		close(done)
	}()
	bubbleWait()
	select {
	case <-done:
	default:
		res.CloseBlocked = true
		res.Dirty = true
		res.DirtyWhy += "the Close call of the teardown does not return; "
	}
	if !rt.serveDone {
		// Serve did not return although Close was called: leave the bubble.
		res.Dirty = true
		res.DirtyWhy += "Serve has not returned after the Close call of the teardown; "
		if os.Getenv("VERIF_DEBUG_DIRTY") != "" {
			buf := make([]byte, 1<<20)
			fmt.Fprintf(os.Stderr, "DIRTY-STACKS\n%s\n", buf[:runtime.Stack(buf, true)])
		}
	}
	for i, c := range rt.Conns {
		if c.Started && c.Closed == 0 {
			res.Dirty = true
			res.DirtyWhy += fmt.Sprintf("connection %d is still open after the teardown; ", i)
		}
	}
}

// RunInline is engine E1: connections are served one after another, each by a
// single server goroutine whose client is the inline script. It must run
// inside a synctest bubble.
func RunInline(c *Case) *Result {
	res := &Result{}
	rt := newRuntime(c, false)
	srv, err := rt.buildServer()
	if err != nil {
		res.BuildErr = err.Error()
		return res
	}
	rt.Srv = srv
	setCurKernel(nil)
	setCurInline(rt)
	go func() {
		rt.serveErr = srv.Serve(rt.L)
		rt.serveDone = true
	}()
	for _, cs := range rt.Conns {
		rt.L.offer <- cs.SimConn
		bubbleWait()
	}
	rt.teardown(res)
	rt.finish(res)
	return res
}

// RunScheduled is engine E2: all connections, Close callers and client
// goroutines are tasks of the seeded scheduler.
func RunScheduled(c *Case) *Result {
	res := &Result{}
	rt := newRuntime(c, true)
	srv, err := rt.buildServer()
	if err != nil {
		res.BuildErr = err.Error()
		return res
	}
	rt.Srv = srv
	var closers []Closer
	if c.Sched != nil {
		closers = c.Sched.Closers
	}
	for i := range closers {
		rt.closerTask = append(rt.closerTask, rt.K.AddTask(fmt.Sprintf("closer%d", i)))
		rt.closerEv = append(rt.closerEv, nil)
		rt.closerMu = append(rt.closerMu, &sync.Mutex{})
	}
	clientTask := map[int]int{}
	for i, cs := range rt.Conns {
		if cs.cc.TLS != nil {
			cs.duplex = true
			clientTask[i] = rt.K.AddTask(fmt.Sprintf("client%d", i))
		}
	}
	if c.Sched != nil && c.Sched.Listeners > 1 {
		// the same Server serves a second listener (its accept loop is one more task)
		rt.L2 = newSimListener(rt)
		rt.L2.task = rt.K.AddTask("accept2")
	}
	rt.K.Configure(c.Sched, c.Sub)
	if c.Sched != nil && c.Sched.CloseFirst {
		func() {
			defer func() {
				if r := recover(); r != nil {
					res.PreClose = "panic: " + fmt.Sprint(r)
				}
			}()
			res.PreClose = "returned " + errClass(srv.Close())
		}()
	}
	setCurKernel(rt.K)
	go func() {
		rt.serveErr = srv.Serve(rt.L)
		rt.serveDone = true
	}()
	if rt.L2 != nil {
		go func() {
			rt.serve2Err = srv.Serve(rt.L2)
			rt.serve2Done = true
		}()
	}
	for _, cs := range rt.Conns {
		rt.L.offer <- cs.SimConn
	}
	// Serve must be up (parked in its first Accept) before any Close caller
	// exists: the properties quantify over Close racing with connections, not
	// over Close racing with the start of Serve itself.
	bubbleWait()
	for i, cs := range rt.Conns {
		if cs.cc.TLS != nil {
			cs, task := cs, clientTask[i]
			go runTLSClient(rt, cs, task)
		}
	}
	for i, cl := range closers {
		i, cl := i, cl
		task := rt.closerTask[i]
		go func() {
			note := func(k, v string) {
				rt.closerMu[i].Lock()
				rt.closerEv[i] = append(rt.closerEv[i], Event{Seq: rt.K.Seq(), K: k, S: v})
				rt.closerMu[i].Unlock()
			}
			defer func() {
				if r := recover(); r != nil {
					note("panic", fmt.Sprint(r))
				}
			}()
			rt.K.Yield(task, "closer.start")
			for n := 0; n < cl.Calls; n++ {
				note("close-call", fmt.Sprint(n))
				err := srv.Close()
				if rt.isFrozen() {
					return
				}
				note("close-ret", errClass(err))
				rt.K.Yield(task, "closer.returned")
			}
			note("closer-exit", "")
		}()
	}
	res.Outcome = rt.K.Run(nil)
	// a real (not suppressed) join: every task is durably blocked or gone, and
	// this Wait is the happens-before edge under which the results are read
	bubbleWait()
	res.ServeDoneBeforeTeardown = rt.serveDone && (rt.L2 == nil || rt.serve2Done)
	res.Stuck = rt.K.ParkedPoints()
	res.Schedule = rt.K.Recorded()
	res.Trace = rt.K.trace
	res.Decisions = rt.K.decisions
	res.Points = rt.K.SeenPoints()
	res.InCmd = rt.K.InCommand()
	res.NConns = len(rt.Conns)
	res.LockWaits = rt.K.lockWaits
	res.Adopted = rt.K.adopted
	res.HoldsForced = rt.K.holdsForced
	rt.snapshotClosed()
	rt.setFrozen()
	rt.K.KillAll()
	for i := range rt.closerEv {
		rt.closerMu[i].Lock()
		res.CloserEvents = append(res.CloserEvents, append([]Event(nil), rt.closerEv[i]...))
		rt.closerMu[i].Unlock()
	}
	rt.teardown(res)
	rt.finish(res)
	return res
}

package harness

import (
	"bufio"
	"encoding/binary"
	"encoding/json"
	"fmt"
	"hash/fnv"
	"os"
	"runtime"
	"runtime/pprof"
	"strings"
	"sync/atomic"
	"testing"
	"testing/synctest"
	"time"

	"verif/pgwire"
)

// realNow returns the real wall clock in nanoseconds even inside a synctest
// bubble (where time.Now is the fake clock): it reads the monotonic runtime
// clock through a timer-free path.
func realNow() int64 { return realClock() }

// CaseRef identifies a case of a batch so that it can be regenerated: either
// the i-th fixed (enumerated) case or the i-th seeded one.
type CaseRef struct {
	Fixed bool   `json:"fixed"`
	Index uint64 `json:"index"`
	Race  bool   `json:"race,omitempty"`
}

// MakeCase regenerates the referenced case.
func MakeCase(p *Prop, seed uint64, tier string, ref CaseRef) *Case {
	if ref.Fixed {
		cases := p.Fixed(tier)
		if int(ref.Index) >= len(cases) {
			return nil
		}
		c := cases[ref.Index]
		c.Prop = p.ID
		return c
	}
	sub := Mix(seed, p.ID, ref.Index)
	gen := p.Gen
	if ref.Race && p.RaceGen != nil {
		gen = p.RaceGen
	}
	c := gen(NewRand(sub), tier)
	c.Prop = p.ID
	c.Sub = sub
	return c
}

// Finding is a violation together with the case that produced it.
type Finding struct {
	Case *Case       `json:"case"`
	Viol []Violation `json:"violations"`
	Ref  CaseRef     `json:"ref"`
	Race bool        `json:"race,omitempty"`
	// Prelude: cases that ran earlier in the same process and are needed for the
	// violation to manifest (state that outlives a Server instance: package-level
	// variables, pools, free lists). Replay runs them first, in order.
	Prelude []*Case `json:"prelude,omitempty"`
	// Seed and Recent (worker output only): how to regenerate the cases that
	// preceded this one in the worker process, oldest first.
	Seed   uint64    `json:"seed,omitempty"`
	Recent []CaseRef `json:"recent,omitempty"`
}

// WorkerReport is the last line a worker writes.
type WorkerReport struct {
	Stats      *Stats   `json:"stats"`
	Digests    []uint64 `json:"digests"`  // content hashes of non-trivial cases
	Traces     int      `json:"traces"`   // distinct E2 interleavings seen by this worker
	TraceSet   []uint64 `json:"traceset"` // (capped) interleaving hashes for cross-worker union
	Samples    []*Case  `json:"samples"`
	FixedDone  int      `json:"fixed_done"`
	SeededDone int      `json:"seeded_done"`
	WallS      float64  `json:"wall_s"`
	RaceBuild  bool     `json:"race_build"`
}

func caseHash(c *Case) uint64 {
	cp := *c
	cp.Sub = 0
	b, _ := json.Marshal(&cp)
	h := fnv.New64a()
	h.Write(b)
	return h.Sum64()
}

// runInBubbles runs fn for successive items inside synctest bubbles, opening a
// fresh bubble whenever a run leaves goroutines behind (dirty) or after
// batchSize items. next returns false when there is nothing left.
func runInBubbles(t *testing.T, batchSize int, next func(x *Exec) bool, x *Exec) {
	for {
		more := true
		done := make(chan struct{})
		// Each bubble runs on its own goroutine: synctest.Test calls
		// t.FailNow() (runtime.Goexit) when the race detector fired inside the
		// bubble, which must not take the worker's main goroutine with it.
		go func() {
			defer close(done)
			defer func() {
				// the end-of-bubble "blocked goroutines remain" panic of an
				// abandoned (dirty) bubble
				if r := recover(); r != nil {
					if !strings.Contains(fmt.Sprint(r), "deadlock") {
						panic(r)
					}
				}
			}()
			synctest.Test(t, func(t *testing.T) {
				for i := 0; i < batchSize; i++ {
					if !next(x) {
						more = false
						return
					}
					if x.Dirty {
						x.Dirty = false
						return
					}
				}
			})
		}()
		<-done
		if !more {
			return
		}
	}
}

// hangClass inspects the goroutines of a hung process. One kind of hang is the
// simulator's own limit, not a statement about the code under test: a
// goroutine waits for a mutex inside crypto/tls (tls.Conn serialises writers
// and readers with plain mutexes) that is held by a task parked at a schedule
// point of the simulated transport underneath. A mutex wait is not a durable
// block for testing/synctest, so the scheduler never learns that it could let
// the holder go on. Code that legitimately writes to one tls.Conn from two
// goroutines meets this limit too; such a hang is therefore reported as
// harness trouble (exit 2), never as a violation.
func hangClass() string {
	buf := make([]byte, 4<<20)
	n := runtime.Stack(buf, true)
	for _, g := range strings.Split(string(buf[:n]), "\n\n") {
		head, _, _ := strings.Cut(g, "\n")
		if (strings.Contains(head, "sync.Mutex.Lock") || strings.Contains(head, "sync.RWMutex")) && strings.Contains(g, "crypto/tls.(*Conn)") {
			return "WATCHDOG-CLASS: simulator-limit (a goroutine waits for a mutex inside crypto/tls held by a task parked in the simulated transport)"
		}
	}
	return "WATCHDOG-CLASS: unclassified"
}

// raceLogSize returns the size of this process's race-detector log.
func raceLogSize() int64 {
	base := os.Getenv("VERIF_RACE_LOG")
	if base == "" {
		return 0
	}
	fi, err := os.Stat(fmt.Sprintf("%s.%d", base, os.Getpid()))
	if err != nil {
		return 0
	}
	return fi.Size()
}

func raceLogFrom(off int64) string {
	base := os.Getenv("VERIF_RACE_LOG")
	b, err := os.ReadFile(fmt.Sprintf("%s.%d", base, os.Getpid()))
	if err != nil || int64(len(b)) <= off {
		return ""
	}
	return string(b[off:])
}

// RaceSignature extracts, from a race report, the first frame of each stack
// that belongs to the library under test or to pgx.
func RaceSignature(report string) string {
	var frames []string
	lines := strings.Split(report, "\n")
	inStack := false
	taken := false
	for _, ln := range lines {
		s := strings.TrimSpace(ln)
		switch {
		case strings.HasPrefix(s, "Write at"), strings.HasPrefix(s, "Read at"),
			strings.HasPrefix(s, "Previous write at"), strings.HasPrefix(s, "Previous read at"):
			inStack, taken = true, false
			continue
		case strings.HasPrefix(s, "Goroutine "), s == "":
			inStack = false
			continue
		}
		if inStack && !taken && (strings.HasPrefix(s, "github.com/jeroenrinzema/psql-wire") || strings.HasPrefix(s, "github.com/jackc/pgx")) {
			if i := strings.Index(s, "("); i > 0 {
				s = s[:i]
			}
			frames = append(frames, s)
			taken = true
		}
		if len(frames) == 2 {
			break
		}
	}
	if len(frames) == 2 && frames[0] > frames[1] {
		frames[0], frames[1] = frames[1], frames[0]
	}
	return "race " + strings.Join(frames, " <-> ")
}

// checkOne runs the property check on one case, adding race-detector reports
// as violations when running under the -race build.
func checkOne(p *Prop, x *Exec, c *Case) ([]Violation, bool) {
	before := int64(0)
	if RaceEnabled {
		before = raceLogSize()
	}
	viol, nontrivial := p.Check(x, c)
	if RaceEnabled {
		if after := raceLogSize(); after > before {
			rep := raceLogFrom(before)
			if sig := RaceSignature(rep); sig == "race " {
				// neither access stack of the report has a frame of the library under
				// test or of pgx: both accesses are the harness's own (seen once: the
				// stack of a new harness goroutine reusing memory that an earlier run's
				// Runtime had occupied). Not a statement about the library; counted.
				x.Probe("race_report_without_library_frames_ignored")
			} else {
				viol = append(viol, Violation{Prop: p.ID, Rule: "data-race", Detail: trunc(rep, 1800), Sig: sig})
			}
		}
	}
	return viol, nontrivial
}

// WorkerMain runs one shard of a batch. It writes findings as JSON lines and a
// final WorkerReport line to outPath, and keeps the reference of the case it is
// about to run in curPath so that a process death can be attributed.
func WorkerMain(t *testing.T, p *Prop, seed uint64, tier string, shard, shards int, secs float64, outPath, curPath string, race bool, doFixed bool) int {
	out, err := os.Create(outPath)
	if err != nil {
		fmt.Fprintln(os.Stderr, "worker:", err)
		return 2
	}
	defer out.Close()
	w := bufio.NewWriter(out)
	defer w.Flush()
	cur, err := os.Create(curPath)
	if err != nil {
		fmt.Fprintln(os.Stderr, "worker:", err)
		return 2
	}
	defer cur.Close()
	var lastCase atomic.Int64
	mark := func(ref CaseRef) {
		lastCase.Store(realNow())
		var b [9]byte
		if ref.Fixed {
			b[0] = 1
		}
		binary.BigEndian.PutUint64(b[1:], ref.Index)
		cur.WriteAt(b[:], 0) //nolint:errcheck
	}
	if err := CheckEncodableTable(); err != nil {
		fmt.Fprintln(os.Stderr, "HARNESS-ERROR: value classification self-check failed:", err)
		return 2
	}
	if pf := os.Getenv("VERIF_PROFILE"); pf != "" {
		if f, err := os.Create(pf); err == nil {
			pprof.StartCPUProfile(f) //nolint:errcheck
			defer pprof.StopCPUProfile()
		}
	}
	rep := &WorkerReport{RaceBuild: RaceEnabled}
	x := NewExec()
	// real-time watchdog (armed outside any bubble): a single case that makes no
	// progress for 30 s ends the worker with exit status 3; the orchestrator
	// attributes the hang to the recorded case and confirms it alone
	lastCase.Store(realNow())
	go func() {
		for {
			time.Sleep(2 * time.Second)
			// (60 s in a batch worker, 30 s in the single-case replay that confirms a
			// hang: a case that is merely slow while sixteen workers share the
			// machine is not a hang, and one that is one hangs alone too)
			if time.Now().UnixNano()-lastCase.Load() > int64(60*time.Second) {
				fmt.Fprintln(os.Stderr, "WATCHDOG: the current case has made no progress for 60 s")
				fmt.Fprintln(os.Stderr, hangClass())
				w.Flush()
				os.Exit(3)
			}
		}
	}()
	digests := map[uint64]struct{}{}
	start := time.Now()
	findings := 0
	var recent []CaseRef // the cases that ran before the current one in this process
	emit := func(c *Case, ref CaseRef, viol []Violation) {
		findings++
		if findings > 40 {
			return
		}
		b, _ := json.Marshal(&Finding{Case: c, Viol: viol, Ref: ref, Race: RaceEnabled, Seed: seed, Recent: append([]CaseRef(nil), recent...)})
		w.Write(b)        //nolint:errcheck
		w.WriteByte('\n') //nolint:errcheck
		w.Flush()
	}
	handle := func(c *Case, ref CaseRef) {
		defer func() {
			recent = append(recent, ref)
			if len(recent) > 64 {
				recent = recent[1:]
			}
		}()
		viol, nontrivial := checkOne(p, x, c)
		if nontrivial {
			x.Stats.Nontrivial++
			if len(digests) < 4_000_000 {
				digests[caseHash(c)] = struct{}{}
			}
			if len(rep.Samples) < 2 && len(c.JSON()) < 64<<10 {
				// (bulky cases are not kept as evidence samples)
				rep.Samples = append(rep.Samples, c)
			}
		}
		if len(viol) > 0 {
			emit(c, ref, viol)
		}
	}
	// enumerated part: shard the fixed list
	var fixed []*Case
	if doFixed && p.Fixed != nil {
		fixed = p.Fixed(tier)
	}
	fi := shard
	runInBubbles(t, 64, func(x *Exec) bool {
		if fi >= len(fixed) {
			return false
		}
		c := fixed[fi]
		c.Prop = p.ID
		ref := CaseRef{Fixed: true, Index: uint64(fi)}
		mark(ref)
		handle(c, ref)
		fi += shards
		rep.FixedDone++
		return true
	}, x)
	// seeded part
	idx := uint64(shard)
	// time.Now() is the fake clock inside a synctest bubble: the budget is
	// enforced by a real timer armed out here, outside any bubble
	var expired atomic.Bool
	timer := time.AfterFunc(time.Duration(secs*float64(time.Second)), func() { expired.Store(true) })
	defer timer.Stop()
	n := 0
	gen := p.Gen
	if race && p.RaceGen != nil {
		gen = p.RaceGen
	}
	if gen != nil {
		runInBubbles(t, 256, func(x *Exec) bool {
			if expired.Load() {
				return false
			}
			if findings > 200 {
				return false
			}
			n++
			ref := CaseRef{Index: idx, Race: race}
			mark(ref)
			sub := Mix(seed, p.ID, idx)
			c := gen(NewRand(sub), tier)
			c.Prop = p.ID
			c.Sub = sub
			if want := os.Getenv("VERIF_VARIANT"); want != "" && c.Variant != want {
				// (diagnosis: only the cases of one variant are run)
				idx += uint64(shards)
				return true
			}
			handle(c, ref)
			idx += uint64(shards)
			rep.SeededDone++
			return true
		}, x)
	}
	rep.Stats = x.Stats
	rep.Traces = len(x.Traces)
	for h := range x.Traces {
		if len(rep.TraceSet) >= 200000 {
			break
		}
		rep.TraceSet = append(rep.TraceSet, h)
	}
	for h := range digests {
		rep.Digests = append(rep.Digests, h)
	}
	rep.WallS = time.Since(start).Seconds()
	b, _ := json.Marshal(map[string]any{"report": rep})
	w.Write(b)        //nolint:errcheck
	w.WriteByte('\n') //nolint:errcheck
	return 0
}

// ReplayMain re-runs one case from a replay file in this (fresh) process and
// prints the violations it reproduces.
func ReplayMain(t *testing.T, path string) int {
	b, err := os.ReadFile(path)
	if err != nil {
		fmt.Fprintln(os.Stderr, "replay:", err)
		return 2
	}
	var f Finding
	if err := json.Unmarshal(b, &f); err != nil || f.Case == nil {
		fmt.Fprintln(os.Stderr, "replay: bad file:", err)
		return 2
	}
	p := Registry[f.Case.Prop]
	if p == nil {
		fmt.Fprintln(os.Stderr, "replay: unknown property", f.Case.Prop)
		return 2
	}
	if f.Race && !RaceEnabled {
		// a finding of the race oracle replays in the -race build
		viol, died, hung, _ := replayChild(path, true, 300*time.Second)
		for _, v := range viol {
			fmt.Printf("reproduced: %s\n", trunc(v.String(), 2000))
		}
		if len(viol) > 0 {
			fmt.Printf("VIOLATION property=%s replay=%s\n", f.Case.Prop, path)
			return 1
		}
		if died != "" || hung {
			fmt.Println(died)
			return 2
		}
		fmt.Println("replay: no violation reproduced (in the -race build)")
		return 0
	}
	if err := CheckEncodableTable(); err != nil {
		fmt.Fprintln(os.Stderr, "HARNESS-ERROR:", err)
		return 2
	}
	start := realNow()
	go func() {
		for {
			time.Sleep(2 * time.Second)
			if time.Now().UnixNano()-start > int64(30*time.Second) {
				fmt.Fprintln(os.Stderr, "WATCHDOG: the case has made no progress for 30 s")
				fmt.Fprintln(os.Stderr, hangClass())
				os.Exit(3)
			}
		}
	}()
	var viol []Violation
	x := NewExec()
	step := 0
	bubble := 1
	if os.Getenv("VERIF_REPLAY_ONE_BUBBLE") != "" {
		bubble = len(f.Prelude) + 1
	}
	runInBubbles(t, bubble, func(x *Exec) bool {
		if step > len(f.Prelude) {
			return false
		}
		if step < len(f.Prelude) {
			// earlier cases of the same process: run for their side effects on
			// state that outlives the Server instance; their verdicts are not used
			checkOne(p, x, f.Prelude[step].Clone())
		} else {
			viol, _ = checkOne(p, x, f.Case)
		}
		step++
		return true
	}, x)
	if mp := os.Getenv("VERIF_MEMPROFILE"); mp != "" {
		// diagnosis only: where did the bytes of this replay come from
		// (run with -test.memprofilerate=1)
		if fh, err := os.Create(mp); err == nil {
			pprof.Lookup("allocs").WriteTo(fh, 0) //nolint:errcheck
			fh.Close()
		}
	}
	res, _ := json.Marshal(map[string]any{"violations": viol})
	fmt.Println("REPLAY-RESULT " + string(res))
	if len(viol) > 0 {
		for _, v := range viol {
			fmt.Printf("reproduced: %s\n", v)
		}
		fmt.Printf("VIOLATION property=%s replay=%s\n", f.Case.Prop, path)
		return 1
	}
	fmt.Println("replay: no violation reproduced")
	return 0
}

// ShowMain runs the case of a replay file once and prints its full event log
// and transcript (debugging aid).
func ShowMain(t *testing.T, path string) int {
	b, err := os.ReadFile(path)
	if err != nil {
		fmt.Fprintln(os.Stderr, err)
		return 2
	}
	var f Finding
	if err := json.Unmarshal(b, &f); err != nil || f.Case == nil {
		var c Case
		if err2 := json.Unmarshal(b, &c); err2 != nil {
			fmt.Fprintln(os.Stderr, "bad file", err, err2)
			return 2
		}
		f.Case = &c
	}
	synctest.Test(t, func(t *testing.T) {
		x := NewExec()
		r := x.Run(f.Case)
		for i, cs := range r.Conns {
			tr := ParseOut(cs)
			fmt.Printf("conn %d: out=%q grammar=%v closed=%d wedged=%v\n", i, pgwire.Kinds(tr.Msgs), tr.Grammar, cs.Closed, cs.Wedged)
			if len(cs.LiveHeap) > 0 {
				fmt.Printf("   live heap %v\n   live stacks %v\n", cs.LiveHeap, cs.LiveStack)
			}
			for _, m := range tr.Msgs {
				if m.Type == 'E' {
					fmt.Printf("   E %v\n", m.Fields)
				}
			}
			for _, e := range cs.Events {
				fmt.Printf("   %4d %-10s %s\n", e.Seq, e.K, trunc(e.S, 160))
			}
		}
		for i, ev := range r.CloserEvents {
			for _, e := range ev {
				fmt.Printf("closer %d: %4d %-10s %s\n", i, e.Seq, e.K, e.S)
			}
		}
		fmt.Printf("serve returned=%v err=%q outcome=%d stuck=%v dirty=%v decisions=%d\n", r.ServeReturned, r.ServeErr, r.Outcome, r.Stuck, r.Dirty, r.Decisions)
	})
	return 0
}

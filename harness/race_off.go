//go:build !race

package harness

// RaceEnabled reports whether the binary was built with -race.
const RaceEnabled = false

func raceDisable() {}
func raceEnable()  {}

package harness

import (
	"fmt"
	"strings"

	"verif/pgwire"
)

func genC16(r *Rand, tier string) *Case {
	c := &Case{Server: ServerCfg{Limit: 4096}, Programs: map[string]*Program{}}
	nconn := r.Range(1, 3)
	auth := r.Chance(1, 4)
	if auth {
		c.Server.Auth = "cleartext"
	}
	for i := 0; i < nconn; i++ {
		var steps []Step
		steps = append(steps, Step{Msgs: []pgwire.FMsg{startupMsg(fmt.Sprintf("u%d", i), "d")}})
		if auth {
			c.Server.Validator = append(c.Server.Validator, AuthEntry{DB: "d", User: fmt.Sprintf("u%d", i), PW: "pw", Out: "accept"})
			if r.Chance(1, 3) {
				// an unauthenticated peer that goes silent at the password prompt
				// (or in the middle of its password message): merely being read from
				cc := ConnCase{Steps: steps, NoEOF: true}
				if r.Bool() {
					cc.Steps = append(cc.Steps, Step{Msgs: []pgwire.FMsg{{K: "p", S1: "pw", Cut: intp(r.Range(1, 6))}}})
				}
				c.Conns = append(c.Conns, cc)
				continue
			}
			steps = append(steps, Step{Msgs: []pgwire.FMsg{{K: "p", S1: "pw"}}})
		}
		nq := r.Range(1, 3)
		for q := 0; q < nq; q++ {
			key := fmt.Sprintf("h%d_%d", i, q)
			ops := []Op{}
			for y := r.Intn(3); y > 0; y-- {
				ops = append(ops, Op{K: "yield"})
			}
			if len(ops) > 0 && r.Chance(1, 6) {
				// a handler that is busy for a while (simulated time) after its first
				// yield: however long it takes, Close waits for it
				ops = append(ops, Op{K: "sleep", Ms: r.PickInt(100, 6000, 31000, 61000, 3600000)})
			}
			ops = append(ops, Op{K: "row", Row: []Val{{G: "int32", I: int64(q)}}}, Op{K: "complete", Tag: "SELECT 1"})
			if r.Chance(1, 5) {
				ops = append(ops, Op{K: "yield"})
			}
			c.Programs[key] = &Program{Stmts: []*StmtProg{{Cols: []ColSpec{{Name: "a", OID: pgwire.OIDInt4}}, Ops: ops}}}
			if r.Chance(1, 4) {
				// a query text of two or three statements: Close may arrive between
				// two of them (the admitted command still runs all of them)
				for n := r.Range(1, 2); n > 0; n-- {
					more := []Op{}
					if r.Bool() {
						more = append(more, Op{K: "yield"})
					}
					more = append(more, Op{K: "row", Row: []Val{{G: "int32", I: int64(q)}}}, Op{K: "complete", Tag: "SELECT 1"})
					c.Programs[key].Stmts = append(c.Programs[key].Stmts, &StmtProg{Cols: []ColSpec{{Name: "a", OID: pgwire.OIDInt4}}, Ops: more})
				}
			}
			if r.Chance(1, 6) {
				// a failing extended message followed by messages that are discarded
				// until Sync (no handler runs for them, and none may be left pending)
				steps = append(steps, Step{Msgs: []pgwire.FMsg{{K: "B", S1: "", S2: "never-parsed"}, {K: "E"}, {K: "D", Sub: 'P', S1: ""}, {K: "S"}}})
			}
			if r.Chance(1, 6) {
				// an oversized message: its answer is written outside any handler
				// (and so outside what Close waits for)
				steps = append(steps, Step{Msgs: []pgwire.FMsg{{K: "typed", T: 'Q', Pad: 5000, PadPat: []byte("oversized ")}}})
			}
			if r.Chance(1, 8) {
				// a statement function that panics inside an extended-protocol Execute
				// (which the library turns into a failed Execute): the command is over,
				// Close does not wait for it
				pk := key + "p"
				pops := []Op{}
				if r.Bool() {
					pops = append(pops, Op{K: "yield"})
				}
				c.Programs[pk] = &Program{Stmts: []*StmtProg{{Cols: []ColSpec{{Name: "a", OID: pgwire.OIDInt4}}, Ops: append(pops, Op{K: "panic"})}}}
				steps = append(steps, Step{Msgs: []pgwire.FMsg{{K: "P", S1: "", S2: pk}, {K: "B"}, {K: "E"}, {K: "S"}}})
			}
			if r.Chance(1, 10) {
				// a complete but malformed message of an admitted type (no NUL
				// terminator, a Bind that ends inside its fields): whatever the server
				// answers, the command is over and Close does not wait for it
				bad := []pgwire.FMsg{{K: "Q", S1: key, NoNul: true}, {K: "P", S1: "", S2: key, NoNul: true}, {K: "typed", T: 'B', Data: []byte{0, 0, 0}}, {K: "typed", T: 'E', Data: []byte("p")}, {K: "typed", T: 'D', Data: []byte{}}}
				steps = append(steps, Step{Msgs: []pgwire.FMsg{bad[r.Intn(len(bad))]}})
			}
			if r.Chance(1, 4) {
				steps = append(steps, Step{Msgs: []pgwire.FMsg{{K: "P", S1: "", S2: key}, {K: "B"}, {K: "E"}, {K: "S"}}})
			} else {
				steps = append(steps, Step{Msgs: []pgwire.FMsg{{K: "Q", S1: key}}})
			}
		}
		cc := ConnCase{Steps: steps}
		switch r.Intn(4) {
		case 0: // stays idle in Read after its traffic
			cc.NoEOF = true
		case 1: // half a message delivered, then silence
			cc.Steps = append(cc.Steps, Step{Msgs: []pgwire.FMsg{{K: "Q", S1: "never-completed", Cut: intp(r.Range(1, 8))}}})
			cc.NoEOF = true
		}
		if r.Bool() {
			cc.Cuts = []int{r.PickInt(1, 3, 5, 64)}
		}
		for _, st := range cc.Steps {
			for _, m := range st.Msgs {
				if m.Pad > 1000 && len(cc.Cuts) > 0 {
					// (every read is a schedule decision: no fine segmentation of a bulk message)
					cc.Cuts = []int{r.PickInt(512, 4096)}
				}
			}
		}
		if r.Chance(1, 5) {
			// a stalled peer: from some write on it no longer reads
			cc.Faults = []Fault{{Kind: "write-stall", At: r.Range(6, 14)}}
		} else if r.Chance(1, 5) {
			// a peer that vanishes: from some write on the transport fails, so a
			// command in flight ends with an I/O error
			cc.Faults = []Fault{{Kind: "write-err", At: r.Range(6, 14), Bytes: r.Intn(4)}}
		}
		c.Conns = append(c.Conns, cc)
	}
	sc := &SchedCase{Strategy: r.Pick("uniform", "pct", "pct", "pct"), Depth: r.Range(1, 3)}
	for n := r.Range(1, 3); n > 0; n-- {
		sc.Closers = append(sc.Closers, Closer{Calls: r.PickInt(1, 1, 2)})
	}
	// steer half of the scenarios so that Close begins while some handler is
	// running (or a command is about to be admitted): the first Close caller is
	// held at its start until a connection has passed that point
	if r.Bool() {
		sc.Holds = append(sc.Holds, Hold{Task: 1 + nconn, Point: "closer.start", Until: 1 + r.Intn(nconn), UntilPoint: r.Pick("cb.stmt", "op.yield", "cb.parse", "cmd.before-admission", "cmd.admitted", "op.row")})
	}
	if r.Chance(1, 12) {
		// Close overtakes the start of Serve
		sc.CloseFirst = true
	}
	if r.Chance(1, 8) {
		// closing the listener reports an error: Close still waits for the handlers
		sc.ListenerCloseErr = true
	}
	if r.Chance(1, 8) {
		// the server listens on two listeners: Close stops both accept loops
		sc.Listeners = 2
	} else if !sc.CloseFirst && r.Chance(1, 8) {
		// the listener breaks once all these connections are in (Accept reports
		// an error that is not net.ErrClosed, Serve returns it); Close afterwards
		// still waits for the handlers and neither panics nor blocks
		sc.AcceptErr = true
	}
	c.Sched = sc
	return c
}

// closeOracle is the event-order monitor of C16.
func closeOracle(c *Case, r *Result) []Violation {
	var viol []Violation
	add := func(rule, sig, detail string) {
		viol = append(viol, Violation{Prop: "C16", Rule: rule, Sig: sig, Detail: detail})
	}
	// G1: panics in Close callers
	var rets []int64
	exited := 0
	for i, evs := range r.CloserEvents {
		for _, e := range evs {
			switch e.K {
			case "panic":
				add("close-panic", "close-panic "+firstWords(e.S, 4), fmt.Sprintf("Close caller %d panicked: %s", i, e.S))
			case "close-ret":
				rets = append(rets, e.Seq)
			case "closer-exit":
				exited++
			}
		}
	}
	var firstRet int64 = -1
	closeFirst := c.Sched != nil && c.Sched.CloseFirst
	if closeFirst {
		// a Close had returned before Serve was even called
		firstRet = 0
		if strings.HasPrefix(r.PreClose, "panic") {
			add("close-panic", "close-panic before-serve", "Close called before Serve panicked: "+r.PreClose)
		}
		if !r.ServeDoneBeforeTeardown {
			add("serve-after-close-does-not-return", "serve-after-close", "a Close call had returned before Serve was called; Serve is still blocked in its accept loop when nothing can run any more")
		}
	}
	for _, s := range rets {
		if firstRet < 0 || s < firstRet {
			firstRet = s
		}
	}
	// G5: bounded liveness
	ncl := 0
	if c.Sched != nil {
		ncl = len(c.Sched.Closers)
	}
	panicked := len(viol) > 0
	// a handler blocked in a write to a stalled peer legitimately keeps Close
	// waiting: the liveness clause is judged only when no started handler is
	// still unfinished
	openHandler := false
	for _, cs := range r.Conns {
		depth := 0
		for _, e := range cs.Events {
			switch e.K {
			case "parse", "stmt":
				depth++
			case "parse-ret", "stmt-end":
				depth--
			}
		}
		if depth > 0 {
			openHandler = true
		}
	}
	for t, in := range r.InCmd {
		if in && t >= 1 && t <= len(r.Conns) && r.Conns[t-1].Stalled {
			openHandler = true // an admitted command has not finished: its reply is stuck on a stalled peer
		}
	}
	if !panicked && exited < ncl && !openHandler {
		switch r.Outcome {
		case RunBudget:
			add("close-no-progress", "close-no-progress", fmt.Sprintf("step budget exhausted with %d of %d Close callers still not returned; parked: %v", ncl-exited, ncl, r.Stuck))
		default:
			add("close-deadlock", "close-deadlock", fmt.Sprintf("no task can run, yet %d of %d Close callers have not returned (deadlock); parked: %v", ncl-exited, ncl, r.Stuck))
		}
	}
	// G3/G4 over handler and parser intervals
	for i, cs := range r.Conns {
		var open []Event
		for _, e := range cs.Events {
			switch e.K {
			case "parse", "stmt":
				open = append(open, e)
				if firstRet >= 0 && e.Seq > firstRet {
					add("handler-started-after-close", "handler-started-after-close "+e.K, fmt.Sprintf("conn %d: %s callback started at t=%d, after Close had returned at t=%d", i, e.K, e.Seq, firstRet))
				}
			case "parse-ret", "stmt-end":
				if len(open) == 0 {
					continue
				}
				st := open[len(open)-1]
				open = open[:len(open)-1]
				for _, rs := range rets {
					if st.Seq < rs && e.Seq > rs {
						add("close-returned-before-handler-finished", "close-returned-early "+st.K, fmt.Sprintf("conn %d: %s callback ran from t=%d to t=%d but a Close returned at t=%d in between", i, st.K, st.Seq, e.Seq, rs))
					}
				}
			}
		}
		for _, st := range open {
			for _, rs := range rets {
				if st.Seq < rs {
					add("close-returned-before-handler-finished", "close-returned-early "+st.K, fmt.Sprintf("conn %d: %s callback started at t=%d and had not finished when Close returned at t=%d", i, st.K, st.Seq, rs))
				}
			}
		}
	}
	// G2
	if closeFirst {
		// (which value a Serve that starts after Close returns is not fixed)
		return viol
	}
	if c.Sched != nil && c.Sched.AcceptErr {
		// (Serve may have ended with the listener's error before Close was called)
		if !panicked && !r.ServeReturned && !r.CloseBlocked {
			add("serve-return", "serve-return", fmt.Sprintf("Serve returned=%v err=%q after Close", r.ServeReturned, r.ServeErr))
		}
		return viol
	}
	if !panicked && (!r.ServeReturned || r.ServeErr != "") && !r.CloseBlocked {
		add("serve-return", "serve-return", fmt.Sprintf("Serve returned=%v err=%q after Close", r.ServeReturned, r.ServeErr))
	}
	// ... and it returns because Close stopped the accept loop, not because the
	// last client went away: when a Close call has returned and nothing can run
	// any more, Serve has returned too - whatever connections are still open
	// and idle (judged before the teardown releases them)
	if !panicked && len(rets) > 0 && !r.CloseBlocked && r.Outcome == RunIdle && r.HoldsForced == 0 && !r.ServeDoneBeforeTeardown {
		add("serve-still-running-after-close", "serve-still-running-after-close", "a Close call has returned and every task is finished or waiting for its client, yet Serve has not returned (it returns only once the remaining connections are gone)")
	}
	return viol
}

func pointsOf(points [][]string, task int, filter func(string) bool) []string {
	var out []string
	if task < len(points) {
		for _, p := range points[task] {
			if filter == nil || filter(p) {
				out = append(out, p)
			}
		}
	}
	return out
}

func checkC16(x *Exec, c *Case) ([]Violation, bool) {
	judge := func(cc *Case) ([]Violation, *Result) {
		r := x.Run(cc)
		cc.Sched.Schedule = r.Schedule
		var viol []Violation
		for i, cs := range r.Conns {
			viol = append(viol, GrammarViolation("C16", i, ParseOut(cs))...)
		}
		viol = append(viol, closeOracle(cc, r)...)
		return viol, r
	}
	viol, r := judge(c)
	nt := false
	// non-trivial: a Close overlapped a command (a handler was open while a Close was in progress)
	for _, evs := range r.CloserEvents {
		var call, ret int64 = -1, -1
		for _, e := range evs {
			if e.K == "close-call" && call < 0 {
				call = e.Seq
			}
			if e.K == "close-ret" {
				ret = e.Seq
			}
		}
		for _, cs := range r.Conns {
			for _, e := range cs.Events {
				if (e.K == "stmt" || e.K == "stmt-end" || e.K == "parse") && call >= 0 && e.Seq > call && (ret < 0 || e.Seq < ret) {
					nt = true
				}
			}
		}
	}
	if nt {
		x.Probe("close_overlapped_handler")
	}
	if len(viol) > 0 || r.Dirty {
		return viol, nt
	}
	// hold-until plans over the discovered schedule points: park a connection
	// at point p until a Close caller has passed q (and the reverse)
	rr := NewRand(c.Sub ^ 0x16161616)
	nconn := len(c.Conns)
	ncl := len(c.Sched.Closers)
	if ncl == 0 || nconn == 0 {
		return viol, nt
	}
	libPoint := func(p string) bool {
		return strings.HasPrefix(p, "@") || strings.HasPrefix(p, "cmd.") || strings.HasPrefix(p, "close.") || strings.HasPrefix(p, "cb.") || strings.HasPrefix(p, "op.")
	}
	plans := 6
	for n := 0; n < plans; n++ {
		ct := 1 + rr.Intn(nconn)
		kt := 1 + nconn + rr.Intn(ncl)
		cps := pointsOf(r.Points, ct, libPoint)
		kps := pointsOf(r.Points, kt, nil)
		if len(cps) == 0 || len(kps) == 0 {
			continue
		}
		v := c.Clone()
		v.Sched.Schedule = nil
		v.Sched.Strategy = rr.Pick("hold", "uniform", "pct")
		if rr.Bool() {
			v.Sched.Holds = []Hold{{Task: ct, Point: cps[rr.Intn(len(cps))], Until: kt, UntilPoint: kps[rr.Intn(len(kps))]}}
		} else {
			v.Sched.Holds = []Hold{{Task: kt, Point: kps[rr.Intn(len(kps))], Until: ct, UntilPoint: cps[rr.Intn(len(cps))]}}
		}
		if ncl > 1 && rr.Chance(1, 3) {
			k2 := 1 + nconn + rr.Intn(ncl)
			if k2 != kt {
				k2ps := pointsOf(r.Points, k2, nil)
				if len(k2ps) > 0 {
					v.Sched.Holds = append(v.Sched.Holds, Hold{Task: kt, Point: kps[rr.Intn(len(kps))], Until: k2, UntilPoint: k2ps[rr.Intn(len(k2ps))]})
				}
			}
		}
		vv, rv := judge(v)
		if len(vv) > 0 {
			*c = *v
			return vv, true
		}
		if rv.Dirty {
			break
		}
	}
	return viol, nt
}

func init() {
	register(&Prop{
		ID: "C16", Level: "exploration", QuickS: 30, ThoroughS: 480, Race: true,
		Rule: "seeded shutdown scenarios under the seeded scheduler: 1-3 connections steered into the states idle-in-Read / half a message delivered / about to start a handler / inside a handler (statement functions with scripted yield points), plus 1-3 goroutines calling Close() once or twice; schedule points at every transport operation, callback entry and row write, at the hand-placed hooks (close.enter/decided/signalled/wait, cmd.before-admission/admitted/done) and in front of every atomic, WaitGroup, channel and mutex operation of the library (spliced by cmd/instrument, so the windows between closing.Load, closing.Store, close(closer), wg.Add and wg.Wait are all steerable); strategies: uniform, PCT (depth 1-3) and, per case, 6 hold-until plans drawn over the schedule points discovered in the first run (park a connection at p until a Close caller has passed q, the reverse, and one Close caller against another); in a fifth of the scenarios one peer stalls (from some write on it never reads again: the server's write blocks for good); oracle: event-order monitor over global sequence numbers (no Close-caller panic, no handler/parser interval straddling a Close return, no handler start after the first Close return, every Close returns once handlers may finish, Serve returns nil - and has returned by the time a Close call is back and nothing can run any more, whatever idle connections remain), process survival, and the -race shard with the HB-transparent scheduler; authenticating servers with peers that go silent at or inside the password message; scenario CloseFirst (one Close returns before Serve is called: Serve must return, no handler may run); servers with two listeners (Serve called twice); handlers that stay busy for 0.1 s - 1 h of simulated time; query texts of two or three statements; complete but malformed messages of admitted types; a listener whose Close reports an error; statement functions that panic inside an extended-protocol Execute; a listener whose Accept fails (not net.ErrClosed) before Close is called; non-trivial = a handler or parser event fell between the call and the return of some Close; distinct = distinct case content hashes; distinct_interleavings = distinct (task, point) decision sequences",
		Components: []string{
			"real: Serve accept loop and closer goroutine, Close, per-command admission (closing/wg/closer), command loop, handlers, buffer reader/writer",
			"stub: listener/connections (simulated), Close callers (harness goroutines), handler programs; scheduler: harness/kernel.go decides which goroutine runs at every schedule point",
		},
		Assumptions: append(append([]string{}, commonAssumptions...), "cooperative scheduling: interleavings inside a region without any synchronisation operation or harness call are not separable (none are needed for this property: every shared access of Close/admission is a sync operation and has a spliced schedule point in front of it)"),
		Gen:         genC16,
		Check:       checkC16,
	})
}

package harness

import (
	"runtime"
	"sync"
)

// Kernel is the seeded cooperative scheduler of engine E2 (and, with
// scheduling disabled, the event counter of engine E1).
//
// Exactly one task goroutine runs between two decisions: every task parks at
// its schedule points (transport operations, callbacks, hook points) and the
// scheduler, after synctest.Wait() reports that every goroutine of the bubble
// is durably blocked, picks one ready parked task and releases it.
//
// HB transparency: all synchronisation performed by the kernel happens inside
// raceDisable()/raceEnable() sections and all of its shared state lives in
// fixed-size arrays touched only from //go:norace functions, so under a -race
// build the detector sees only the happens-before edges created by the code
// under test while execution is still serialised and chosen by the schedule.
type Kernel struct {
	enabled bool
	killed  bool
	seq     int64
	ntasks  int

	name    [maxTasks]string
	parked  [maxTasks]bool
	point   [maxTasks]string
	goid    [maxTasks]uint64
	wake    [maxTasks]chan struct{}
	ready   [maxTasks]func() bool
	spin    [maxTasks]bool
	lastTry [maxTasks]int64
	epoch   int64
	steps   [maxTasks]int32 // schedule points passed per task

	// strategy
	strategy  int // 0 replay/lowest, 1 uniform, 2 pct
	rng       uint64
	prioSeed  uint64
	prio      [maxTasks]int64
	change    [8]int
	nchange   int
	holds     [16]Hold
	holdDone  [16]bool
	nholds    int
	replay    []int32
	decisions int
	maxSteps  int

	rec   [maxRec]int32
	nrec  int
	trace uint64 // FNV-1a over (task, point) of every decision

	// probes
	lockWaits   int
	holdsForced int
	adopted     int // goroutines started by the code under test that became tasks

	// adoptSpawned: goroutines the code under test starts on its own become
	// tasks at their first schedule point
	adoptSpawned bool
	adoptMu      sync.Mutex

	// adopted tasks: the resource (connection / listener task) they were first
	// seen operating on, or -1; candidates are ordered by it, not by the order
	// in which the goroutines happened to arrive
	spawned [maxTasks]bool
	hint    [maxTasks]int

	// writers waiting per mutex (see VerifPending in the instrumented copy)
	pendID [32]any
	pendN  [32]int

	// whether the task is between the library's "cmd.admitted" and "cmd.done"
	// hook points (a command is being handled)
	inCmd [maxTasks]bool

	// distinct schedule points seen per task (discovery for hold-until plans)
	seen  [maxTasks][maxSeen]string
	nseen [maxTasks]int
}

const (
	maxTasks = 40
	maxRec   = 1 << 14
	maxSeen  = 40
)

// NewKernel must be called inside the synctest bubble (its channels belong to
// the bubble).
func NewKernel(enabled bool) *Kernel {
	k := &Kernel{enabled: enabled, adoptSpawned: enabled, trace: 14695981039346656037, maxSteps: 20000}
	for i := range k.wake {
		k.wake[i] = make(chan struct{})
	}
	return k
}

// AddTask registers a task before the run starts and returns its id.
func (k *Kernel) AddTask(name string) int {
	if !k.enabled {
		return -1 // engine E1 has no tasks (and no limit on the number of connections)
	}
	id := k.ntasks
	if id >= maxTasks {
		panic("kernel: too many tasks")
	}
	k.name[id] = name
	k.ntasks++
	return id
}

//go:norace
func splitmix(s *uint64) uint64 {
	*s += 0x9e3779b97f4a7c15
	z := *s
	z = (z ^ (z >> 30)) * 0xbf58476d1ce4e5b9
	z = (z ^ (z >> 27)) * 0x94d049bb133111eb
	return z ^ (z >> 31)
}

// Configure installs the schedule strategy from the case.
func (k *Kernel) Configure(sc *SchedCase, seed uint64) {
	k.rng = seed ^ 0x5851f42d4c957f2d
	k.prioSeed = seed ^ 0x2545f4914f6cdd1d
	if sc == nil {
		return
	}
	if sc.MaxSteps > 0 {
		k.maxSteps = sc.MaxSteps
	}
	k.replay = sc.Schedule
	switch sc.Strategy {
	case "uniform":
		k.strategy = 1
	case "pct":
		k.strategy = 2
		for i := 0; i < maxTasks; i++ {
			k.prio[i] = int64(splitmix(&k.rng)>>2) + 1000
		}
		d := sc.Depth
		if d > len(k.change) {
			d = len(k.change)
		}
		for i := 0; i < d; i++ {
			k.change[i] = int(splitmix(&k.rng) % 160)
		}
		k.nchange = d
	case "hold":
		k.strategy = 0
	default:
		k.strategy = 0
	}
	for i, h := range sc.Holds {
		if i >= len(k.holds) {
			break
		}
		k.holds[i] = h
		k.nholds++
	}
}

// Seq returns the next global event sequence number. Execution is serialised,
// so a plain increment is sufficient (and creates no happens-before edge).
//
//go:norace
func (k *Kernel) Seq() int64 {
	k.seq++
	return k.seq
}

func curGoid() uint64 {
	var buf [64]byte
	n := runtime.Stack(buf[:], false)
	// "goroutine 123 [running]:"
	var id uint64
	for i := len("goroutine "); i < n; i++ {
		c := buf[i]
		if c < '0' || c > '9' {
			break
		}
		id = id*10 + uint64(c-'0')
	}
	return id
}

// Yield parks the calling task at a schedule point until the scheduler
// releases it. With scheduling disabled it only returns.
//
//go:norace
func (k *Kernel) Yield(task int, point string) {
	if !k.enabled || k.killed || task < 0 {
		return
	}
	id := curGoid()
	if k.goid[task] == 0 {
		k.goid[task] = id
	} else if k.goid[task] != id {
		// the operation is performed on this task's connection by another
		// goroutine (e.g. a Close caller closing the socket): it is a schedule
		// point of the goroutine that performs it
		k.yieldAs(point, task)
		return
	}
	k.park(task, point)
}

// Pending implements the library-side VerifPending hook: op +1/-1 counts the
// writers waiting for mutex id, op 0 reports whether any is waiting.
//
//go:norace
func (k *Kernel) Pending(id any, op int) bool {
	raceDisable()
	defer raceEnable()
	slot, free := -1, -1
	for i := range k.pendID {
		if k.pendID[i] == id {
			slot = i
			break
		}
		if k.pendID[i] == nil && free < 0 {
			free = i
		}
	}
	switch {
	case op == 0:
		return slot >= 0 && k.pendN[slot] > 0
	case op > 0:
		if slot < 0 {
			if free < 0 {
				return false
			}
			slot = free
			k.pendID[slot] = id
		}
		k.pendN[slot]++
	default:
		if slot >= 0 {
			k.pendN[slot]--
			if k.pendN[slot] <= 0 {
				k.pendID[slot], k.pendN[slot] = nil, 0
			}
		}
	}
	return false
}

// adopt makes a goroutine that the code under test started on its own (a
// timer callback, a background flusher, a watcher, a helper goroutine of a
// handshake) a task of the scheduler at its first schedule point: from then on
// it runs only when the scheduler picks it, like every other task. Returns -1
// when the task table is full (the goroutine then runs unscheduled, as all
// such goroutines did before).
//
//go:norace
func (k *Kernel) adopt(id uint64, hint int) int {
	raceDisable()
	defer raceEnable()
	k.adoptMu.Lock()
	defer k.adoptMu.Unlock()
	for t := 0; t < k.ntasks; t++ {
		if k.goid[t] == id {
			return t
		}
	}
	if k.ntasks >= maxTasks {
		return -1
	}
	t := k.ntasks
	k.name[t] = "spawned"
	k.goid[t] = id
	k.spawned[t] = true
	k.hint[t] = hint
	// (its PCT priority follows from what it operates on, not from its slot)
	h := k.prioSeed ^ (uint64(hint+2) * 0x9e3779b97f4a7c15)
	k.prio[t] = int64(splitmix(&h)>>2) + 1000
	k.adopted++
	k.ntasks = t + 1
	return t
}

// StartTask binds the calling goroutine to a task that has no goroutine yet
// and parks it at point - unless the caller already is some task (the accept
// loop asking for a connection's address, say).
//
//go:norace
func (k *Kernel) StartTask(task int, point string) {
	if !k.enabled || k.killed || task < 0 || k.goid[task] != 0 {
		return
	}
	id := curGoid()
	for t := 0; t < k.ntasks; t++ {
		if k.goid[t] == id {
			return
		}
	}
	k.goid[task] = id
	k.park(task, point)
}

// YieldHook is installed as the library's VerifYield: the task is found by
// goroutine id.
//
//go:norace
func (k *Kernel) YieldHook(point string) { k.yieldAs(point, -1) }

// yieldAs parks the calling goroutine's task at point; a goroutine that is no
// task yet is adopted (hint: the task of the resource it operates on, or -1).
//
//go:norace
func (k *Kernel) yieldAs(point string, hint int) {
	if !k.enabled || k.killed {
		return
	}
	id := curGoid()
	for t := 0; t < k.ntasks; t++ {
		if k.goid[t] == id {
			switch point {
			case "cmd.admitted":
				k.inCmd[t] = true
			case "cmd.done":
				k.inCmd[t] = false
			}
			k.park(t, point)
			return
		}
	}
	// (only at an operation on a simulated connection or listener: there the
	// goroutine has an identity that does not depend on arrival order - what it
	// operates on. A goroutine first seen at a bare synchronisation point could
	// be told from its twin only by arrival order, which the simulator does not
	// control; it passes, as all such goroutines did before adoption existed.)
	if k.adoptSpawned && hint >= 0 {
		if t := k.adopt(id, hint); t >= 0 {
			k.park(t, point)
		}
	}
}

// InCommand reports, per task, whether it is inside an admitted command.
//
//go:norace
func (k *Kernel) InCommand() []bool {
	out := make([]bool, k.ntasks)
	for t := 0; t < k.ntasks; t++ {
		out[t] = k.inCmd[t]
	}
	return out
}

//go:norace
func (k *Kernel) park(task int, point string) {
	raceDisable()
	k.point[task] = point
	found := false
	for i := 0; i < k.nseen[task]; i++ {
		if k.seen[task][i] == point {
			found = true
			break
		}
	}
	if !found && k.nseen[task] < maxSeen {
		k.seen[task][k.nseen[task]] = point
		k.nseen[task]++
	}
	k.parked[task] = true
	<-k.wake[task]
	killed := k.killed
	raceEnable()
	if killed {
		runtime.Goexit()
	}
}

// Block parks the task until ready() reports true (evaluated by the
// scheduler; ready must be a //go:norace function over kernel-safe state).
//
//go:norace
func (k *Kernel) Block(task int, point string, ready func() bool) {
	if !k.enabled || k.killed {
		return
	}
	if k.goid[task] == 0 {
		k.goid[task] = curGoid()
	}
	k.ready[task] = ready
	k.park(task, point)
	k.ready[task] = nil
}

// LockHook implements cooperative mutex acquisition for code instrumented by
// cmd/instrument: it never blocks on the mutex itself. On contention the task
// parks and becomes eligible again only after some other task has made
// progress.
//
//go:norace
func (k *Kernel) LockHook(try func() bool, lock func(), point string) {
	if !k.enabled || k.killed {
		lock()
		return
	}
	id := curGoid()
	task := -1
	for t := 0; t < k.ntasks; t++ {
		if k.goid[t] == id {
			task = t
			break
		}
	}
	if task < 0 {
		lock()
		return
	}
	k.park(task, point)
	for !try() {
		k.lockWaits++
		k.spin[task] = true
		k.lastTry[task] = k.epoch
		k.park(task, point+"#wait")
		k.spin[task] = false
		if !k.enabled || k.killed {
			lock()
			return
		}
	}
}

// Outcome of a scheduler run.
const (
	RunIdle     = iota // nothing parked and ready: all tasks finished or blocked inside the library
	RunBudget          // step budget exhausted
	RunLockDead        // only mutex-waiters left
)

//go:norace
func (k *Kernel) isHeld(t int) bool {
	for i := 0; i < k.nholds; i++ {
		h := &k.holds[i]
		if !k.holdDone[i] && h.Task == t && h.Point == k.point[t] {
			return true
		}
	}
	return false
}

// Run is the scheduler loop. stop (may be nil) is polled between decisions.
//
//go:norace
func (k *Kernel) Run(stop func() bool) int {
	raceDisable()
	defer raceEnable()
	for {
		bubbleWait()
		if stop != nil && stop() {
			return RunIdle
		}
		var cand [maxTasks]int
		nc := 0
		nheld := 0
		var held [maxTasks]int
		spinners := 0
		for t := 0; t < k.ntasks; t++ {
			if !k.parked[t] {
				continue
			}
			if k.ready[t] != nil && !k.ready[t]() {
				continue
			}
			if k.spin[t] && k.lastTry[t] >= k.epoch {
				spinners++
				continue
			}
			if k.isHeld(t) {
				held[nheld] = t
				nheld++
				continue
			}
			cand[nc] = t
			nc++
		}
		// adopted tasks come in the order of what they operate on (and where they
		// are parked), whatever order their goroutines arrived in
		for i := 1; i < nc; i++ {
			for j := i; j > 0 && k.spawned[cand[j]] && k.spawned[cand[j-1]] &&
				(k.hint[cand[j]] < k.hint[cand[j-1]] || (k.hint[cand[j]] == k.hint[cand[j-1]] && k.point[cand[j]] < k.point[cand[j-1]])); j-- {
				cand[j], cand[j-1] = cand[j-1], cand[j]
			}
		}
		if nc == 0 && nheld > 0 {
			// the awaited task cannot run: release the held ones
			k.holdsForced++
			for i := 0; i < k.nholds; i++ {
				k.holdDone[i] = true
			}
			for i := 0; i < nheld; i++ {
				cand[i] = held[i]
			}
			nc = nheld
		}
		if nc == 0 {
			if spinners > 0 {
				return RunLockDead
			}
			return RunIdle
		}
		if k.decisions >= k.maxSteps {
			return RunBudget
		}
		idx := k.choose(cand[:nc])
		t := cand[idx]
		if k.nrec < maxRec {
			k.rec[k.nrec] = int32(idx)
			k.nrec++
		}
		k.decisions++
		k.steps[t]++
		if !k.spin[t] {
			k.epoch++
		}
		pt := k.point[t]
		tid := uint64(t + 1)
		if k.spawned[t] {
			tid = uint64(1000 + k.hint[t] + 2)
		}
		k.trace = (k.trace ^ tid) * 1099511628211
		for i := 0; i < len(pt); i++ {
			k.trace = (k.trace ^ uint64(pt[i])) * 1099511628211
		}
		for i := 0; i < k.nholds; i++ {
			if !k.holdDone[i] && k.holds[i].Until == t && k.holds[i].UntilPoint == pt {
				k.holdDone[i] = true
			}
		}
		k.parked[t] = false
		k.wake[t] <- struct{}{}
	}
}

//go:norace
func (k *Kernel) choose(cand []int) int {
	n := len(cand)
	d := k.decisions
	if d < len(k.replay) {
		v := int(k.replay[d])
		if v < 0 {
			v = -v
		}
		return v % n
	}
	switch k.strategy {
	case 1:
		return int(splitmix(&k.rng) % uint64(n))
	case 2:
		for i := 0; i < k.nchange; i++ {
			if k.change[i] == d {
				// lower the priority of the highest-priority candidate
				best := 0
				for j := 1; j < n; j++ {
					if k.prio[cand[j]] > k.prio[cand[best]] {
						best = j
					}
				}
				k.prio[cand[best]] = int64(i) // below every initial priority
			}
		}
		best := 0
		for j := 1; j < n; j++ {
			if k.prio[cand[j]] > k.prio[cand[best]] {
				best = j
			}
		}
		return best
	}
	return 0
}

// TaskExit marks the end of a harness-owned task (it parks nowhere again).
//
//go:norace
func (k *Kernel) TaskExit(task int) {}

// KillAll ends the scheduled phase: every parked task is released and leaves
// through runtime.Goexit (deferred functions of the code under test run).
//
//go:norace
func (k *Kernel) KillAll() {
	raceDisable()
	defer raceEnable()
	k.killed = true
	for t := 0; t < k.ntasks; t++ {
		if k.parked[t] {
			k.parked[t] = false
			k.wake[t] <- struct{}{}
			bubbleWait()
		}
	}
	bubbleWait()
}

// Recorded returns the decision vector of the run.
//
//go:norace
func (k *Kernel) Recorded() []int32 {
	out := make([]int32, k.nrec)
	for i := 0; i < k.nrec; i++ {
		out[i] = k.rec[i]
	}
	return out
}

// ParkedPoints lists "task@point" for every task that is still parked.
//
//go:norace
func (k *Kernel) ParkedPoints() []string {
	var out []string
	for t := 0; t < k.ntasks; t++ {
		if k.parked[t] {
			out = append(out, k.name[t]+"@"+k.point[t])
		}
	}
	return out
}

// SeenPoints returns the distinct schedule points each task parked at.
//
//go:norace
func (k *Kernel) SeenPoints() [][]string {
	out := make([][]string, k.ntasks)
	for t := 0; t < k.ntasks; t++ {
		for i := 0; i < k.nseen[t]; i++ {
			out[t] = append(out[t], k.seen[t][i])
		}
	}
	return out
}

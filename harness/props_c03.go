package harness

import (
	"bytes"
	"encoding/binary"
	"fmt"
	"io"
	"log/slog"
	"strings"

	"github.com/jeroenrinzema/psql-wire/pkg/buffer"

	"verif/pgwire"
)

// segReader hands out a byte slice in segments of the given sizes.
type segReader struct {
	b    []byte
	cuts []int
	n    int
}

func (s *segReader) Read(p []byte) (int, error) {
	if len(s.b) == 0 {
		return 0, io.EOF
	}
	n := len(p)
	if len(s.cuts) > 0 {
		if c := s.cuts[s.n%len(s.cuts)]; c > 0 && c < n {
			n = c
		}
	}
	s.n++
	if n > len(s.b) {
		n = len(s.b)
	}
	copy(p, s.b[:n])
	s.b = s.b[n:]
	return n, nil
}

// AccessorOp is one call on buffer.Reader's message accessors.
type AccessorOp struct {
	K string `json:"k"` // string bytes u16 u32 prep
	N int    `json:"n,omitempty"`
}

// accessorCheck drives buffer.Reader directly over a segmenting reader: a
// message followed by a canary message; a sequence of accessor calls is
// compared call by call with an independent cursor.
func accessorCheck(c *Case) (viol []Violation) {
	body, _ := c.Expect["body"].([]byte)
	if s, ok := c.Expect["body"].(string); ok {
		// after a JSON round trip []byte arrives as base64 text
		var tmp struct{ B []byte }
		if err := jsonUnmarshalB64(s, &tmp.B); err == nil {
			body = tmp.B
		}
	}
	var ops []AccessorOp
	reencode(c.Expect["ops"], &ops)
	var cuts []int
	reencode(c.Expect["cuts"], &cuts)
	canary := []byte("CANARY-MESSAGE-BODY\x00")
	var stream []byte
	stream = append(stream, 'Q')
	stream = binary.BigEndian.AppendUint32(stream, uint32(len(body)+4))
	stream = append(stream, body...)
	stream = append(stream, 'Z')
	stream = binary.BigEndian.AppendUint32(stream, uint32(len(canary)+4))
	stream = append(stream, canary...)
	add := func(rule, detail string) {
		viol = append(viol, Violation{Prop: "C03", Rule: rule, Sig: rule, Detail: detail})
	}
	defer func() {
		if r := recover(); r != nil {
			add("accessor-panic", fmt.Sprintf("accessor sequence %v on a %d-byte body panicked: %v", ops, len(body), r))
		}
	}()
	rd := buffer.NewReader(slog.New(discardHandler{}), &segReader{b: stream, cuts: cuts}, 1<<16)
	ty, n, err := rd.ReadTypedMsg()
	if err != nil || ty != 'Q' || n != len(body)+4 {
		add("accessor-read", fmt.Sprintf("ReadTypedMsg = (%q, %d, %v), want ('Q', %d, nil)", ty, n, err, len(body)+4))
		return
	}
	cur := 0 // independent cursor into body
	for i, op := range ops {
		rest := body[cur:]
		switch op.K {
		case "string":
			got, err := rd.GetString()
			idx := bytes.IndexByte(rest, 0)
			if idx < 0 {
				if err == nil {
					add("accessor-mismatch", fmt.Sprintf("op %d GetString returned %q without error on unterminated data", i, got))
					return
				}
				continue
			}
			if err != nil || got != string(rest[:idx]) {
				add("accessor-mismatch", fmt.Sprintf("op %d GetString = (%q, %v), want %q", i, got, err, rest[:idx]))
				return
			}
			cur += idx + 1
		case "bytes":
			got, err := rd.GetBytes(op.N)
			if op.N > len(rest) {
				if err == nil {
					add("accessor-mismatch", fmt.Sprintf("op %d GetBytes(%d) returned %d bytes without error with only %d left", i, op.N, len(got), len(rest)))
					return
				}
				continue
			}
			if err != nil || !bytes.Equal(got, rest[:op.N]) {
				add("accessor-mismatch", fmt.Sprintf("op %d GetBytes(%d) = (%x, %v), want %x", i, op.N, got, err, rest[:op.N]))
				return
			}
			cur += op.N
		case "u16":
			got, err := rd.GetUint16()
			if len(rest) < 2 {
				if err == nil {
					add("accessor-mismatch", fmt.Sprintf("op %d GetUint16 returned %d without error with %d byte(s) left", i, got, len(rest)))
					return
				}
				continue
			}
			if err != nil || got != binary.BigEndian.Uint16(rest) {
				add("accessor-mismatch", fmt.Sprintf("op %d GetUint16 = (%d, %v), want %d", i, got, err, binary.BigEndian.Uint16(rest)))
				return
			}
			cur += 2
		case "u32":
			got, err := rd.GetUint32()
			if len(rest) < 4 {
				if err == nil {
					add("accessor-mismatch", fmt.Sprintf("op %d GetUint32 returned %d without error with %d byte(s) left", i, got, len(rest)))
					return
				}
				continue
			}
			if err != nil || got != binary.BigEndian.Uint32(rest) {
				add("accessor-mismatch", fmt.Sprintf("op %d GetUint32 = (%d, %v), want %d", i, got, err, binary.BigEndian.Uint32(rest)))
				return
			}
			cur += 4
		case "prep":
			got, err := rd.GetPrepareType()
			if len(rest) < 1 {
				if err == nil {
					add("accessor-mismatch", fmt.Sprintf("op %d GetPrepareType returned %d without error on empty data", i, got))
					return
				}
				continue
			}
			if err != nil || byte(got) != rest[0] {
				add("accessor-mismatch", fmt.Sprintf("op %d GetPrepareType = (%d, %v), want %d", i, got, err, rest[0]))
				return
			}
			cur++
		}
	}
	ty, _, err = rd.ReadTypedMsg()
	if err != nil || ty != 'Z' || !bytes.Equal(rd.Msg, canary) {
		add("accessor-next-message", fmt.Sprintf("after the accessor sequence the next message is (%q, %q, %v), want the canary", ty, rd.Msg, err))
	}
	return
}

// genC03Boundary places messages where position matters: a short message that
// ends within a few bytes of the end of the connection's current 4 KiB block
// (bodies are stored back to back, so the position is the sum of the body sizes
// so far), and body-less / short message types that carry 9-12 KiB.
func genC03Boundary(r *Rand) *Case {
	c := &Case{Variant: "boundary", Server: ServerCfg{Limit: 65536}, Programs: map[string]*Program{}}
	prog := func(key string) {
		c.Programs[key] = &Program{Stmts: []*StmtProg{{Cols: []ColSpec{{Name: "a", OID: pgwire.OIDInt4}}, Ops: []Op{{K: "row", Row: []Val{{G: "int32", I: 7}}}, {K: "complete", Tag: "SELECT 1"}}}}}
	}
	query := func(key string, body int) pgwire.FMsg {
		// a simple query whose body (text + NUL) has exactly that size
		prog(key)
		q := key
		for len(q)+1 < body {
			q += " "
		}
		return pgwire.FMsg{K: "Q", S1: q}
	}
	su := startupMsg("u", "d")
	used := int(su.DeclaredBody())
	var msgs []pgwire.FMsg
	if r.Bool() {
		// short message at the end of the block
		small := r.PickInt(5, 12, 13, 14, 15, 16, 17)
		left := r.PickInt(0, 1, 2, 3, 15, 16)
		fill := 4096 - used - small - left
		msgs = append(msgs, query("fill", fill), query("s", small), query("n", 9), pgwire.FMsg{K: "S"}, query("z", 13))
	} else {
		// 9-12 KiB inside message types that are usually tiny
		n := r.PickInt(9000, 9998, 9999, 10000, 10001, 12000)
		name := strings.Repeat("n", n)
		prog("long")
		switch r.Intn(4) {
		case 0:
			msgs = append(msgs, pgwire.FMsg{K: "P", S1: name, S2: "long"}, pgwire.FMsg{K: "D", Sub: 'S', S1: name}, pgwire.FMsg{K: "S"})
		case 1:
			msgs = append(msgs, pgwire.FMsg{K: "P", S1: name, S2: "long"}, pgwire.FMsg{K: "B", S1: name, S2: name}, pgwire.FMsg{K: "E", S1: name}, pgwire.FMsg{K: "C", Sub: 'P', S1: name}, pgwire.FMsg{K: "S"})
		case 2:
			msgs = append(msgs, pgwire.FMsg{K: "S", Tail: []byte(name)}, pgwire.FMsg{K: "H", Tail: []byte(name)}, pgwire.FMsg{K: "S"})
		case 3:
			msgs = append(msgs, pgwire.FMsg{K: "C", Sub: 'S', S1: name}, pgwire.FMsg{K: "D", Sub: 'P', S1: name}, pgwire.FMsg{K: "S"})
		}
		if r.Bool() {
			// Describe / Close whose kind byte is neither 'S' nor 'P'
			msgs = append(msgs, oddTarget(r), pgwire.FMsg{K: "S"})
		}
		msgs = append(msgs, query("after", 20), pgwire.FMsg{K: "S"}, query("z", 13))
	}
	steps := []Step{{Msgs: []pgwire.FMsg{su}}}
	if r.Bool() {
		steps = append(steps, Step{Msgs: msgs})
	} else {
		for i := range msgs {
			steps = append(steps, Step{Msgs: msgs[i : i+1]})
		}
	}
	c.Conns = []ConnCase{{Steps: steps, Cuts: genCuts(r)}}
	return c
}

// oddTarget is a Describe or Close message whose kind byte is not one of the
// two the protocol defines (0x00 makes the body look like an empty string).
func oddTarget(r *Rand) pgwire.FMsg {
	return pgwire.FMsg{K: r.Pick("D", "C"), Sub: byte(r.PickInt(0, 0, 1, 'X', 's', 0x80, 0xff)), S1: r.Pick("", "s1", "p1")}
}

func genAccessorCase(r *Rand) *Case {
	var body []byte
	n := r.Range(0, 6)
	var ops []AccessorOp
	for i := 0; i < n; i++ {
		switch r.Intn(5) {
		case 0:
			body = append(body, r.Ident(r.Intn(6))...)
			body = append(body, 0)
		case 1:
			body = append(body, r.Bytes(r.PickInt(0, 1, 2, 4, 9))...)
		case 2:
			body = binary.BigEndian.AppendUint16(body, uint16(r.U64()))
		case 3:
			body = binary.BigEndian.AppendUint32(body, uint32(r.U64()))
		case 4:
			body = append(body, r.Ident(r.Intn(4))...) // unterminated
		}
	}
	for i := r.Range(1, 8); i > 0; i-- {
		switch r.Intn(5) {
		case 0:
			ops = append(ops, AccessorOp{K: "string"})
		case 1:
			ops = append(ops, AccessorOp{K: "bytes", N: r.PickInt(0, 1, 2, 4, 5, 16, len(body), len(body)+1, 1<<20)})
		case 2:
			ops = append(ops, AccessorOp{K: "u16"})
		case 3:
			ops = append(ops, AccessorOp{K: "u32"})
		case 4:
			ops = append(ops, AccessorOp{K: "prep"})
		}
	}
	return &Case{Variant: "accessor", Conns: []ConnCase{}, Expect: map[string]any{"body": body, "ops": ops, "cuts": genCuts(r)}}
}

// segmentations returns the cut lists the differential runs use.
func segmentations(r *Rand, msgs []pgwire.FMsg, n int) [][]int {
	out := [][]int{nil, {1}, {2, 3}, {4, 1}, {5}, {6, 1, 1}}
	// a cut at every message boundary
	var bounds []int
	for i := range msgs {
		var l int64
		for _, ch := range msgs[i].Encode() {
			l += ch.Len()
		}
		if l > 0 && l < 1<<20 {
			bounds = append(bounds, int(l))
		}
	}
	if len(bounds) > 0 {
		out = append(out, bounds)
	}
	for i := 0; i < n; i++ {
		k := r.Range(1, 8)
		cuts := make([]int, k)
		for j := range cuts {
			cuts[j] = r.PickInt(1, 1, 2, 3, 4, 5, 6, 7, 9, 13, 64, 500)
		}
		out = append(out, cuts)
	}
	return out
}

func hasEmptyRead(c *Case) bool {
	if len(c.Conns) == 0 {
		return false
	}
	for _, f := range c.Conns[0].Faults {
		if f.Kind == "empty-read" {
			return true
		}
	}
	return false
}

func stripTails(c *Case) *Case {
	cp := c.Clone()
	for ci := range cp.Conns {
		for si := range cp.Conns[ci].Steps {
			for mi := range cp.Conns[ci].Steps[si].Msgs {
				m := &cp.Conns[ci].Steps[si].Msgs[mi]
				if len(m.K) == 1 && m.K != "d" {
					m.Tail = nil
				}
				if m.K == "ssl" {
					// surplus carried inside an SSLRequest's declared length
					m.Data = nil
				}
			}
		}
	}
	return cp
}

func checkC03(x *Exec, c *Case) ([]Violation, bool) {
	if c.Variant == "accessor" {
		x.Stats.Runs++
		return accessorCheck(c), true
	}
	if c.Variant == "malformed-last" {
		// a large final message whose every field arrives but whose declared
		// length does not: it is not a message, nothing is executed for it
		r := x.Run(c)
		var viol []Violation
		for i, cs := range r.Conns {
			viol = append(viol, GrammarViolation("C03", i, ParseOut(cs))...)
			if what := executedAfterLastFlight(cs); what != "" && i == 0 {
				viol = append(viol, Violation{Prop: "C03", Rule: "incomplete-message-executed", Sig: "incomplete-message-executed", Detail: fmt.Sprintf("conn %d: the client's last message was never delivered in its declared length, yet it reached a callback: %s", i, what)})
			}
		}
		return viol, true
	}
	// reference run: as generated, but without empty reads (a replayed case may
	// carry the empty read that made a difference; it is then run as a variant)
	given := c
	givenTimeout, givenEOFData := false, false
	for _, f := range c.Conns[0].Faults {
		if f.Kind == "read-timeout" {
			givenTimeout = true
		}
		if f.Kind == "eof-with-data" {
			givenEOFData = true
		}
	}
	if hasEmptyRead(c) || givenTimeout || givenEOFData {
		c = c.Clone()
		var keep []Fault
		for _, f := range c.Conns[0].Faults {
			if f.Kind != "empty-read" && f.Kind != "read-timeout" && f.Kind != "eof-with-data" {
				keep = append(keep, f)
			}
		}
		c.Conns[0].Faults = keep
	}
	viol, r0, _ := modelCheck("C03", x, c)
	if len(r0.Conns) == 0 {
		return viol, false
	}
	ref := r0.Conns[0]
	refT := Canonical(ParseOut(ref).Msgs)
	refRaw := len(ref.Out)
	refEv := CallbackTrace(ref)
	r := NewRand(c.Sub ^ 0xabcdef)
	segs := segmentations(r, c.Conns[0].FlatMsgs(), 3)
	for _, cuts := range segs {
		v := c.Clone()
		v.Conns[0].Cuts = cuts
		rv := x.Run(v)
		cs := rv.Conns[0]
		t := Canonical(ParseOut(cs).Msgs)
		ev := CallbackTrace(cs)
		if t != refT || len(cs.Out) != refRaw || ev != refEv || cs.Closed == 0 {
			what := "server transcript"
			if t == refT && len(cs.Out) == refRaw {
				what = "callback trace"
			}
			c.Expect = map[string]any{"diverging_cuts": cuts}
			viol = append(viol, Violation{Prop: "C03", Rule: "segmentation-dependence", Sig: "segmentation " + what,
				Detail: fmt.Sprintf("the same client bytes cut as %v (instead of %v) give a different %s:\n  reference: %s | %s\n  this cut:  %s | %s", cuts, c.Conns[0].Cuts,
					what, trunc(pgwire.Kinds(ParseOut(ref).Msgs), 80), trunc(strings.ReplaceAll(refEv, "\n", "; "), 160), trunc(pgwire.Kinds(ParseOut(cs).Msgs), 80), trunc(strings.ReplaceAll(ev, "\n", "; "), 160))})
			break
		}
	}
	// a legal empty read (0 bytes, no error) at a few positions must not change
	// anything either
	if len(viol) == 0 {
		nreads := ref.reads
		for k := 0; k < 5 && nreads > 0; k++ {
			v := c.Clone()
			at := r.Intn(nreads*3 + 2)
			if k == 4 {
				if given == c {
					break
				}
				v = given.Clone() // the replayed variant itself
				at = -1
			} else {
				switch k % 2 {
				case 0:
					v.Conns[0].Cuts = []int{1}
				case 1:
					v.Conns[0].Cuts = segs[6%len(segs)]
				}
				v.Conns[0].Faults = append(v.Conns[0].Faults, Fault{Kind: "empty-read", At: at})
			}
			rv := x.Run(v)
			cs := rv.Conns[0]
			if cs.EmptyReads == 0 {
				continue
			}
			x.Probe("empty_read_delivered")
			t := Canonical(ParseOut(cs).Msgs)
			ev := CallbackTrace(cs)
			if t != refT || ev != refEv || cs.Closed == 0 {
				*given = *v
				viol = append(viol, Violation{Prop: "C03", Rule: "empty-read-dependence", Sig: "empty-read-dependence",
					Detail: fmt.Sprintf("a read that returns 0 bytes without error (read #%d, cuts %v) changes the outcome:\n  reference: %s | %s\n  with it:   %s | %s", at, v.Conns[0].Cuts,
						trunc(pgwire.Kinds(ParseOut(ref).Msgs), 80), trunc(strings.ReplaceAll(refEv, "\n", "; "), 120), trunc(pgwire.Kinds(ParseOut(cs).Msgs), 80), trunc(strings.ReplaceAll(ev, "\n", "; "), 120))})
				return viol, true
			}
		}
	}
	// one read that reports a transient timeout (nothing is lost, the next read
	// succeeds): the bytes are the same, so a server that carries on answers the
	// same; it may also give the connection up. Not judged when a handler reads
	// the stream itself (COPY): what a handler does with a failed read is its own.
	if len(viol) == 0 && ref.reads > 0 && !strings.Contains(refEv, "copy") {
		for k := 0; k < 3; k++ {
			v := c.Clone()
			if k == 1 {
				v.Conns[0].Cuts = []int{r.PickInt(1, 7, 100)}
			}
			at := r.Intn(ref.reads + 1)
			if k == 2 {
				if !givenTimeout {
					break
				}
				v = given.Clone() // the replayed variant itself
				for _, f := range v.Conns[0].Faults {
					if f.Kind == "read-timeout" {
						at = f.At
					}
				}
			} else {
				v.Conns[0].Faults = append(v.Conns[0].Faults, Fault{Kind: "read-timeout", At: at, Timeout: true})
			}
			rv := x.Run(v)
			cs := rv.Conns[0]
			if cs.FaultFired["read-timeout"] == 0 {
				continue
			}
			refRun := ref
			if k >= 1 {
				// (the undisturbed run under the same cuts)
				u := c.Clone()
				u.Conns[0].Cuts = v.Conns[0].Cuts
				refRun = x.Run(u).Conns[0]
			}
			x.Probe("transient_read_timeout_delivered")
			if ok, _, detail := afterTimeoutVerdict(refRun, cs); !ok {
				*given = *v
				viol = append(viol, Violation{Prop: "C03", Rule: "diverges-after-read-timeout", Sig: "diverges-after-read-timeout",
					Detail: fmt.Sprintf("read #%d reported a timeout (no byte lost, later reads succeed): %s", at, detail)})
				return viol, true
			}
		}
	}
	// the peer's last bytes arrive together with its end of stream (one Read
	// returns n > 0 and io.EOF): the same bytes, the same outcome
	if len(viol) == 0 && !c.Conns[0].NoEOF {
		for k := 0; k < 3; k++ {
			v := c.Clone()
			switch k {
			case 1:
				v.Conns[0].Cuts = []int{1}
			case 2:
				if !givenEOFData {
					continue
				}
				v = given.Clone() // the replayed variant itself
			}
			if k < 2 {
				v.Conns[0].Faults = append(v.Conns[0].Faults, Fault{Kind: "eof-with-data", At: -1})
			}
			rv := x.Run(v)
			cs := rv.Conns[0]
			if cs.FaultFired["eof-with-data"] == 0 {
				continue
			}
			x.Probe("eof_delivered_with_data")
			t := Canonical(ParseOut(cs).Msgs)
			ev := CallbackTrace(cs)
			if t != refT || ev != refEv || cs.Closed == 0 {
				*given = *v
				viol = append(viol, Violation{Prop: "C03", Rule: "eof-with-data-dependence", Sig: "eof-with-data-dependence",
					Detail: fmt.Sprintf("the client's last bytes and its end of stream arrive in one read (cuts %v): the outcome changes:\n  reference: %s | %s\n  with it:   %s | %s", v.Conns[0].Cuts,
						trunc(pgwire.Kinds(ParseOut(ref).Msgs), 80), trunc(strings.ReplaceAll(refEv, "\n", "; "), 120), trunc(pgwire.Kinds(ParseOut(cs).Msgs), 80), trunc(strings.ReplaceAll(ev, "\n", "; "), 120))})
				return viol, true
			}
		}
	}
	// exact consumption: the same session without the grammar-external surplus
	// bytes inside messages must give the same transcript and callback trace
	hasTail, oversized := false, false
	for _, m := range c.Conns[0].FlatMsgs() {
		if len(m.K) == 1 && m.K != "d" && len(m.Tail) > 0 {
			hasTail = true
			var size int64
			for _, ch := range m.Encode() {
				size += ch.Len()
			}
			if limit := int64(c.Server.Limit); limit > 0 && size-1 > limit {
				// the rejection of an oversized message quotes its size: the
				// comparison only applies to messages the server reads
				oversized = true
			}
		}
	}
	if hasTail && !oversized {
		rv := x.Run(stripTails(c))
		cs := rv.Conns[0]
		if Canonical(ParseOut(cs).Msgs) != refT || CallbackTrace(cs) != refEv {
			viol = append(viol, Violation{Prop: "C03", Rule: "surplus-bytes-leak", Sig: "surplus-bytes-leak",
				Detail: fmt.Sprintf("removing the unread surplus bytes inside client messages changes the outcome:\n  with surplus: %s\n  without:      %s", trunc(pgwire.Kinds(ParseOut(ref).Msgs), 100), trunc(pgwire.Kinds(ParseOut(cs).Msgs), 100))})
		}
	}
	return viol, true
}

func init() {
	register(&Prop{
		ID: "C03", Level: "exploration", QuickS: 25, ThoroughS: 420,
		Rule:        "seeded client byte streams (valid sessions of every phase incl. SSLRequest->N, COPY, oversized messages; messages carrying grammar-external surplus bytes: Parse with parameter OIDs, Execute/Sync/Flush/Query/Describe/Close/Bind with trailing junk, SSLRequests carrying bytes inside their declared length, Describe/Close with undefined kind bytes; a truncated or mis-sized final message; final messages of 64 KiB - 400 KB within the limit whose fields all arrive but whose declared length does not: nothing is executed for them) each run under its generated segmentation and then under: all at once, one byte per read, cuts inside every 5-byte header ({2,3},{4,1},{5},{6,1,1}), a cut at every message boundary and 3 seeded cut lists, plus four runs with one legal empty read (0 bytes, no error) at a seeded read index; canonical transcript, output length and callback trace must be identical across all of them, and equal to the run with the surplus bytes removed; accessor clause: buffer.Reader driven directly over the segmenting reader with a generated message body followed by a canary message, a random sequence of GetString/GetBytes(n>=0)/GetUint16/GetUint32/GetPrepareType compared call by call with an independent cursor (no panic, errors exactly on short/unterminated data, canary message intact afterwards); every case counts as two more differential runs: one read reports a transient timeout (no byte lost; identical if the server carries on, a prefix if it gives up; not when a handler reads the stream itself), the client's last bytes arrive together with io.EOF; non-trivial (each is a differential over >= 9 segmentations); distinct = distinct case content hashes",
		Components:  append(append([]string{}, e1Components...), "accessor clause: real pkg/buffer.Reader over a stub segmenting io.Reader (input generation riding on the simulated transport)"),
		Assumptions: commonAssumptions,
		Gen: func(r *Rand, tier string) *Case {
			if r.Chance(1, 5) {
				return genAccessorCase(r)
			}
			if r.Chance(1, 10) {
				return genC03Boundary(r)
			}
			if r.Chance(1, 60) {
				// a final message of 64 KiB - 400 KB that is never delivered in its
				// declared length although all of its fields arrive
				c := c04LargeTruncated(r)
				c.Conns = c.Conns[:1]
				return c
			}
			c := &Case{Server: ServerCfg{Limit: r.PickInt(1000, 4096, 65536, 65536)}}
			if r.Chance(1, 5) {
				c.Server.Auth = "cleartext"
			}
			genHistory(r, c, histOpts{simple: true, extended: true, copy: true, errs: true, unknown: true, oversized: r.Chance(1, 3), stray: true, params: true, binary: true, unknownNames: true, closes: true, multi: true, terminate: true, tails: true, maxUnits: 6})
			cc := &c.Conns[0]
			if r.Chance(1, 5) {
				// SSLRequest declined, then the plaintext session - either waiting for
				// the 'N' or with the startup packet pipelined right behind the request
				ssl := pgwire.FMsg{K: "ssl"}
				if r.Chance(1, 3) {
					// an SSLRequest that declares and carries more than its 8 bytes
					ssl.Data = r.PickBytes([]byte{0, 0, 0, 8}, []byte{0}, []byte{0, 3, 0, 0}, r.Bytes(r.Range(1, 24)))
				}
				if r.Bool() {
					cc.Steps = append([]Step{{Msgs: []pgwire.FMsg{ssl}}}, cc.Steps...)
				} else {
					cc.Steps[0].Msgs = append([]pgwire.FMsg{ssl}, cc.Steps[0].Msgs...)
				}
			}
			if r.Chance(1, 3) {
				// the client does not wait for any reply: everything is pipelined into
				// one flight, so read-ahead crosses every phase boundary
				var all []pgwire.FMsg
				for _, st := range cc.Steps {
					all = append(all, st.Msgs...)
				}
				cc.Steps = []Step{{Msgs: all}}
			}
			if r.Chance(1, 4) {
				// a truncated or mis-sized final message
				last := pgwire.FMsg{K: "Q", S1: "qtrunc " + r.Str(10)}
				switch r.Intn(3) {
				case 0:
					last.Cut = intp(r.Range(1, 12))
				case 1:
					last.DeclLen = u32p(uint32(r.PickInt(0, 3, 5, 9, 200)))
				case 2:
					last = pgwire.FMsg{K: "B", S1: "", S2: "", Params: []pgwire.Param{{V: []byte("abc")}}, Cut: intp(r.Range(6, 14))}
				}
				cc.Steps = append(cc.Steps, Step{Msgs: []pgwire.FMsg{last}})
			}
			return c
		},
		Check: checkC03,
	})
}

package harness

import (
	"bytes"
	"encoding/binary"
	"fmt"
	"math"
	"strings"

	"verif/pgwire"
)

// c14Table draws a table shape and row set and returns the encoded fields.
func c14Table(r *Rand, ncols, nrows int, oids []uint32) ([]ColSpec, [][][]byte, []string) {
	cols := make([]ColSpec, ncols)
	for i := range cols {
		cols[i] = ColSpec{Name: fmt.Sprintf("c%d", i), OID: oids[r.Intn(len(oids))]}
	}
	var rows [][][]byte
	var want []string
	for n := 0; n < nrows; n++ {
		row := make([][]byte, ncols)
		var sb strings.Builder
		fmt.Fprintf(&sb, "n=%d", ncols)
		for i, c := range cols {
			if r.Chance(1, 4) {
				sb.WriteString(" [NULL]")
				continue
			}
			if fam := oidFamily(c.OID); (fam == "date" || fam == "ts" || fam == "tstz") && r.Chance(1, 8) {
				// 'infinity' / '-infinity': a regular value of these types
				sign := int64(r.PickInt(1, -1))
				var enc []byte
				if fam == "date" {
					enc = binary.BigEndian.AppendUint32(nil, uint32(int32(map[int64]int32{1: math.MaxInt32, -1: math.MinInt32}[sign])))
				} else {
					enc = binary.BigEndian.AppendUint64(nil, uint64(map[int64]int64{1: math.MaxInt64, -1: math.MinInt64}[sign]))
				}
				row[i] = enc
				fmt.Fprintf(&sb, " [%s]", pgwire.Value{Kind: "infinity", I: sign}.String())
				continue
			}
			v := genVal(r, c.OID).Canon(c.OID)
			enc, err := pgwire.Encode(c.OID, 1, v)
			if err != nil {
				panic(err)
			}
			if enc == nil {
				enc = []byte{}
			}
			row[i] = enc
			fmt.Fprintf(&sb, " [%s]", v.String())
		}
		rows = append(rows, row)
		want = append(want, sb.String())
	}
	return cols, rows, want
}

func c14Case(cols []ColSpec, stream []byte, pieces []int, want []string, end string, variant string) *Case {
	c := &Case{Variant: variant, Server: ServerCfg{Limit: 65536}, Programs: map[string]*Program{}}
	c.Programs["cp"] = &Program{Stmts: []*StmtProg{{Cols: cols, Ops: []Op{{K: "copyin", Fmt: 1}, {K: "binrows"}, {K: "finishcopy", Tag: "COPY"}}}}}
	msgs := []pgwire.FMsg{{K: "Q", S1: "cp"}}
	off := 0
	for _, p := range pieces {
		if off+p > len(stream) {
			p = len(stream) - off
		}
		msgs = append(msgs, pgwire.FMsg{K: "d", Data: append([]byte{}, stream[off:off+p]...)})
		off += p
	}
	if off < len(stream) {
		msgs = append(msgs, pgwire.FMsg{K: "d", Data: append([]byte{}, stream[off:]...)})
	}
	msgs = append(msgs, pgwire.FMsg{K: "c"}, pgwire.FMsg{K: "Q", S1: probeKey})
	c.Programs[probeKey] = probeProgram()
	c.Conns = []ConnCase{{Steps: []Step{{Msgs: []pgwire.FMsg{startupMsg("u", "d")}}, {Msgs: msgs}}}}
	c.Expect = map[string]any{"rows": want, "end": end}
	return c
}

func c14Fixed(tier string) []*Case {
	var out []*Case
	r := NewRand(20240914)
	shapes := [][]uint32{{pgwire.OIDInt2}, {pgwire.OIDBool, pgwire.OIDInt2}, {pgwire.OIDText}}
	for si, oids := range shapes {
		for _, trailer := range []bool{true, false} {
			cols, rows, want := c14Table(r, len(oids), 1+si%2, oids)
			for i := range cols {
				cols[i].OID = oids[i]
			}
			// re-encode rows for the fixed column types
			rows, want = nil, nil
			for n := 0; n < 1+si%2; n++ {
				row := make([][]byte, len(cols))
				var sb strings.Builder
				fmt.Fprintf(&sb, "n=%d", len(cols))
				for i, c := range cols {
					if n == 0 && i == 1 {
						sb.WriteString(" [NULL]")
						continue
					}
					v := genVal(r, c.OID)
					if c.OID == pgwire.OIDText {
						v = Val{G: "string", S: "ab"}
					}
					cv := v.Canon(c.OID)
					row[i], _ = pgwire.Encode(c.OID, 1, cv)
					if row[i] == nil {
						row[i] = []byte{}
					}
					fmt.Fprintf(&sb, " [%s]", cv.String())
				}
				rows = append(rows, row)
				want = append(want, sb.String())
			}
			stream := pgwire.EncodeBinaryCopy(rows, trailer)
			n := len(stream)
			if n > 48 {
				continue
			}
			// every split into 2 pieces
			for a := 1; a < n; a++ {
				out = append(out, c14Case(cols, stream, []int{a}, want, "eof", "split2"))
			}
			// every split into 3 pieces
			for a := 1; a < n; a++ {
				for b := a + 1; b < n; b++ {
					out = append(out, c14Case(cols, stream, []int{a, b - a}, want, "eof", "split3"))
				}
			}
			// whole, and one byte per message
			out = append(out, c14Case(cols, stream, []int{n}, want, "eof", "whole"))
			ones := make([]int, n)
			for i := range ones {
				ones[i] = 1
			}
			out = append(out, c14Case(cols, stream, ones, want, "eof", "bytewise"))
		}
	}
	return out
}

func genC14(r *Rand, tier string) *Case {
	oids := richOIDs
	ncols := r.Range(1, 5)
	nrows := r.Range(0, 6)
	cols, rows, want := c14Table(r, ncols, nrows, oids)
	trailer := r.Chance(2, 3)
	var ext []byte
	if r.Chance(1, 6) {
		ext = r.Bytes(r.PickInt(1, 2, 4, 19, 40)) // header extension area: must be skipped
	}
	stream := pgwire.EncodeBinaryCopyExt(rows, trailer, ext)
	hdr := 19 + len(ext)
	end := "eof"
	variant := "seeded"
	// row offsets for corruptions
	if r.Chance(1, 4) && nrows > 0 {
		variant = "corrupt"
		// locate the start of row k
		k := r.Intn(nrows)
		off := hdr
		for i := 0; i < k; i++ {
			off += 2
			for _, f := range rows[i] {
				off += 4
				if f != nil {
					off += len(f)
				}
			}
		}
		want = want[:k]
		end = "err"
		switch r.Intn(6) {
		case 5: // a negative field count that is not the -1 trailer
			binary.BigEndian.PutUint16(stream[off:], uint16(r.PickInt(0x8000, 0xFFFE, 0xFF00, 0x8001+r.Intn(0x7ff0))))
		case 0: // field count +1
			binary.BigEndian.PutUint16(stream[off:], uint16(ncols+1))
		case 1: // field count -1 (0 when one column)
			binary.BigEndian.PutUint16(stream[off:], uint16(ncols-1))
		case 2:
			binary.BigEndian.PutUint16(stream[off:], 0x7FFF)
		case 3: // first value length beyond the stream
			binary.BigEndian.PutUint32(stream[off+2:], uint32(r.PickInt(len(stream)+1, len(stream)+100, 1<<20, 0x7FFFFFFF, 0x7FFFFFFE, 0x80000000, 0xFFFFFFFE, 0xFFFF0000)))
		case 4: // truncated last row
			cutAt := off + 2 + r.Intn(3)
			if cutAt < len(stream) {
				stream = stream[:cutAt]
			}
		}
	} else if r.Chance(1, 8) && nrows > 0 {
		// a fixed-width field sent with another width (the bytes announced do
		// follow, the stream stays aligned): not a value of the column's type
		k := r.Intn(nrows)
		var cand []int
		for i, c := range cols {
			switch oidFamily(c.OID) {
			case "bool", "int2", "int4", "int8", "oid", "f32", "f64", "uuid", "date", "ts", "tstz":
				if rows[k][i] != nil {
					cand = append(cand, i)
				}
			}
		}
		if len(cand) > 0 {
			i := cand[r.Intn(len(cand))]
			orig := rows[k][i]
			var repl []byte
			switch r.Intn(3) {
			case 0: // widened
				repl = append(append([]byte{}, orig...), r.Bytes(r.PickInt(1, 2, 4, 8))...)
			case 1: // narrowed to a non-empty prefix
				if len(orig) > 1 {
					repl = append([]byte{}, orig[:r.Range(1, len(orig)-1)]...)
				} else {
					repl = append(append([]byte{}, orig...), 0)
				}
			case 2: // the text rendering of a number where the binary value belongs
				repl = []byte(fmt.Sprintf("%d", r.Intn(100000)+10))
				if len(repl) == len(orig) {
					repl = append(repl, '0')
				}
			}
			rows[k][i] = repl
			stream = pgwire.EncodeBinaryCopyExt(rows, trailer, ext)
			want = want[:k]
			end = "err"
			variant = "wrong-width-field"
		}
	} else if r.Chance(1, 10) && trailer {
		variant = "garbage-after-trailer"
		stream = append(stream, r.Bytes(r.Range(1, 9))...)
		end = "any"
	}
	if len(stream) >= 19 && bytes.HasPrefix(stream, pgwire.CopySignature) && r.Chance(1, 6) {
		// header flags: bits 0-15 signal backwards-compatible format issues and
		// are ignored by readers (the critical half, bits 16-31, stays zero)
		binary.BigEndian.PutUint32(stream[len(pgwire.CopySignature):], uint32(r.PickInt(1, 1<<7, 1<<15, 0x0101, 0xffff, 0x8000)))
	}
	// chunking is the schedule
	var pieces []int
	switch r.Intn(6) {
	case 0:
		pieces = []int{len(stream)}
	case 1:
		for i := 0; i < len(stream) && i < 400; i++ {
			pieces = append(pieces, 1)
		}
	case 2: // cuts inside the header
		pieces = []int{r.Range(1, 18)}
	case 3: // exactly at row boundaries
		off := hdr
		pieces = append(pieces, hdr)
		for _, row := range rows {
			l := 2
			for _, f := range row {
				l += 4
				if f != nil {
					l += len(f)
				}
			}
			pieces = append(pieces, l)
			off += l
		}
	default:
		for left := len(stream); left > 0; {
			p := r.PickInt(1, 2, 3, 5, 8, 19, 21, 64)
			if r.Chance(1, 10) {
				p = 0 // an empty CopyData message
			}
			pieces = append(pieces, p)
			left -= p
		}
	}
	if variant == "seeded" && trailer && r.Chance(1, 8) {
		// empty CopyData messages behind the trailer: the stream has not changed
		sum := 0
		for _, p := range pieces {
			sum += p
		}
		if sum < len(stream) {
			pieces = append(pieces, len(stream)-sum)
		}
		for k := r.Range(1, 2); k > 0; k-- {
			pieces = append(pieces, 0)
		}
	}
	limit := 0
	if variant == "seeded" && r.Chance(1, 6) {
		// a small message limit and values of its order of magnitude: every
		// CopyData message fits, one item (and what is buffered with it) does not
		limit = r.PickInt(256, 1024)
		ncols = r.Range(1, 3)
		cols = make([]ColSpec, ncols)
		for i := range cols {
			cols[i] = ColSpec{Name: fmt.Sprintf("c%d", i), OID: []uint32{pgwire.OIDText, pgwire.OIDBytea}[r.Intn(2)]}
		}
		rows, want = nil, nil
		for n := r.Range(1, 4); n > 0; n-- {
			row := make([][]byte, ncols)
			var sb strings.Builder
			fmt.Fprintf(&sb, "n=%d", ncols)
			for i, cl := range cols {
				size := r.PickInt(3, limit/2, limit-40, limit, limit+1, 2*limit, 5*limit)
				var v pgwire.Value
				if cl.OID == pgwire.OIDText {
					v = Val{G: "string", S: r.Ident(size)}.Canon(cl.OID)
				} else {
					v = Val{G: "bytes", B: r.Bytes(size)}.Canon(cl.OID)
				}
				enc, err := pgwire.Encode(cl.OID, 1, v)
				if err != nil {
					panic(err)
				}
				row[i] = enc
				fmt.Fprintf(&sb, " [%s]", v.String())
			}
			rows = append(rows, row)
			want = append(want, sb.String())
		}
		stream = pgwire.EncodeBinaryCopyExt(rows, trailer, ext)
		pieces = nil
		for left := len(stream); left > 0; {
			p := r.PickInt(1, 19, limit/2, limit-9, limit-8)
			pieces = append(pieces, p)
			left -= p
		}
		variant = "small-limit"
	}
	foreignAt := -1
	if variant == "seeded" && len(pieces) > 1 && nrows > 0 && r.Chance(1, 8) {
		// a message that is not part of the COPY stream arrives in the middle of
		// it (its body: the rest of the stream, so that a reader which took it for
		// data would go on decoding rows): the COPY is aborted there - the rows
		// completely delivered before it are the only rows, then an error
		variant = "foreign-mid-stream"
		foreignAt = r.Range(1, len(pieces)-1)
		prefix := 0
		for _, p := range pieces[:foreignAt] {
			prefix += p
		}
		if prefix > len(stream)-3 {
			// (the stream is all but complete in front of it: nothing to cut off)
			foreignAt = 1
			prefix = pieces[0]
			if prefix > len(stream)-3 {
				prefix = len(stream) - 3
				pieces[0] = prefix
			}
		}
		off := hdr
		keep := 0
		for _, row := range rows {
			off += 2
			for _, f := range row {
				off += 4
				if f != nil {
					off += len(f)
				}
			}
			if off <= prefix {
				keep++
			}
		}
		want = want[:keep]
		end = "err"
	}
	c := c14Case(cols, stream, pieces, want, end, variant)
	if foreignAt >= 0 {
		st := &c.Conns[0].Steps[1]
		prefix := 0
		for _, p := range pieces[:foreignAt] {
			prefix += p
		}
		if prefix > len(stream) {
			prefix = len(stream)
		}
		// Steps[1].Msgs = Q cp, d*len(pieces) [, d rest], c, Q probe
		foreign := pgwire.FMsg{K: "typed", T: byte(r.Pick("Q", "P", "B", "E", "z")[0]), Data: append([]byte{}, stream[prefix:]...)}
		ms := append([]pgwire.FMsg{}, st.Msgs[:1+foreignAt]...)
		ms = append(ms, foreign)
		st.Msgs = append(ms, st.Msgs[1+foreignAt:]...)
	}
	if limit > 0 {
		c.Server.Limit = limit
	}
	c.Conns[0].Cuts = genCuts(r)
	if r.Chance(1, 6) && len(cols) > 0 {
		// an earlier binary COPY on the same connection into another relation
		// whose columns have the same names (and table id) but other types:
		// whatever the reader prepared for that one is of no use for this one
		cols0 := make([]ColSpec, len(cols))
		row0 := make([][]byte, len(cols))
		for i, cl := range cols {
			alt := uint32(pgwire.OIDInt4)
			if cl.OID == pgwire.OIDInt4 {
				alt = pgwire.OIDText
			}
			cols0[i] = ColSpec{Name: cl.Name, OID: alt, Table: cl.Table}
			v := genVal(r, alt)
			if alt == pgwire.OIDText {
				v = Val{G: "string", S: r.Pick("abcd", "token-2", "x")}
			}
			enc, err := pgwire.Encode(alt, 1, v.Canon(alt))
			if err != nil || enc == nil {
				enc = []byte{0, 0, 0, 7}
				if alt == pgwire.OIDText {
					enc = []byte("abcd")
				}
			}
			row0[i] = enc
		}
		c.Programs["cp0"] = &Program{Stmts: []*StmtProg{{Cols: cols0, Ops: []Op{{K: "copyin", Fmt: 1}, {K: "binrows"}, {K: "finishcopy", Tag: "COPY"}}}}}
		pre := []pgwire.FMsg{{K: "Q", S1: "cp0"}, {K: "d", Data: pgwire.EncodeBinaryCopy([][][]byte{row0}, true)}, {K: "c"}}
		st := &c.Conns[0].Steps[1]
		st.Msgs = append(pre, st.Msgs...)
	}
	if r.Chance(1, 4) {
		// the handler reads every row under a time limit of its own that runs out
		// while the row is being read, and reads again with its live context
		for i := range c.Programs["cp"].Stmts[0].Ops {
			if op := &c.Programs["cp"].Stmts[0].Ops[i]; op.K == "binrows" {
				op.Flip = r.Range(1, 3)
			}
		}
	}
	return c
}

func checkC14(x *Exec, c *Case) ([]Violation, bool) {
	if c.Variant == "foreign-mid-stream" {
		// (a shrunk case may have left the domain of this variant's expectation:
		// a message of another type stands between two CopyData messages, and the
		// CopyData messages in front of it do not carry the whole stream)
		before, after, seen := 0, 0, false
		if len(c.Conns) > 0 {
			for _, m := range c.Conns[0].FlatMsgs() {
				switch {
				case m.K == "typed":
					seen = true
				case m.K == "d" && !seen:
					before += len(m.Data)
				case m.K == "d":
					after += len(m.Data)
				}
			}
		}
		if !seen || after < 3 || before < 19 {
			return nil, false
		}
	}
	r := x.Run(c)
	var viol []Violation
	var want []string
	reencode(c.Expect["rows"], &want)
	end, _ := c.Expect["end"].(string)
	add := func(rule, sig, detail string) {
		viol = append(viol, Violation{Prop: "C14", Rule: rule, Sig: sig, Detail: detail})
	}
	nt := false
	for i, cs := range r.Conns {
		t := ParseOut(cs)
		viol = append(viol, GrammarViolation("C14", i, t)...)
		viol = append(viol, connEnded("C14", i, cs)...)
		var got []string
		gotEnd := ""
		for _, e := range cs.Events {
			if e.K == "stmt" && strings.HasPrefix(e.S, "cp#") {
				// (rows of an earlier COPY into another relation are not judged)
				got, gotEnd = nil, ""
			}
			if e.K != "op" {
				continue
			}
			f := strings.SplitN(e.S, " ", 3)
			if len(f) < 3 || f[1] != "binrow" {
				continue
			}
			if strings.HasPrefix(f[2], "row ") {
				got = append(got, strings.TrimPrefix(f[2], "row "))
			} else {
				gotEnd = f[2]
			}
		}
		if len(got) > 0 || gotEnd != "" {
			nt = true
		}
		desc := fmt.Sprintf("(%d messages in the flight, variant %s)", len(cs.cc.FlatMsgs())-1, c.Variant)
		for k := 0; k < len(got) && k < len(want); k++ {
			if got[k] != want[k] {
				add("wrong-row", "wrong-row "+c.Variant, fmt.Sprintf("row %d decoded as %q, the client encoded %q %s", k, got[k], want[k], desc))
				break
			}
		}
		if len(got) > len(want) {
			add("fabricated-row", "fabricated-row "+c.Variant, fmt.Sprintf("the reader returned %d rows, the client encoded %d valid ones; extra: %q %s", len(got), len(want), got[len(want)], desc))
		}
		if len(got) < len(want) {
			add("missing-row", fmt.Sprintf("missing-row %s end=%s", c.Variant, gotEnd), fmt.Sprintf("the reader returned only %d of %d rows and then %q %s", len(got), len(want), gotEnd, desc))
		} else {
			switch end {
			case "eof":
				if gotEnd != "eof" {
					add("no-end-of-stream", "no-eof "+c.Variant+" got="+gotEnd, fmt.Sprintf("after all %d rows the reader reported %q instead of end-of-stream %s", len(want), gotEnd, desc))
				}
			case "err":
				if gotEnd != "err" {
					add("corruption-not-reported", "corruption "+c.Variant+" got="+gotEnd, fmt.Sprintf("a corrupted row was not reported as an error: reader ended with %q after %d rows %s", gotEnd, len(got), desc))
				}
			}
		}
		// the cycle must complete and the next query must be served
		kinds := pgwire.Kinds(t.Msgs)
		if t.Grammar == nil && !(strings.HasSuffix(kinds, "CZ") && t.Msgs[len(t.Msgs)-2].Tag == "PROBE OK") {
			add("copy-cycle-broken", "copy-cycle-broken "+c.Variant, fmt.Sprintf("after the COPY the following query was not answered normally: %q %s", kinds, desc))
		}
	}
	return viol, nt
}

func init() {
	register(&Prop{
		ID: "C14", Level: "exploration", QuickS: 25, ThoroughS: 420,
		Rule:       "binary COPY streams (signature, flags - in a sixth of the seeded cases with bits of the non-critical half 0-15 set, which readers ignore -, header extension area of 0-40 bytes, tuples, optional -1 trailer) produced by the independent encoder for tables of 1-5 columns over the covered types and 0-6 rows with NULLs anywhere; the chunking into CopyData messages is the schedule: for three short table shapes (stream <= 48 bytes), with and without trailer, EVERY split into 2 and into 3 CopyData messages is enumerated, plus whole-stream and one-byte-per-message; seeded cases use 1-byte messages, cuts inside the header, cuts exactly at row boundaries, random pieces incl. empty CopyData messages, on top of transport segmentation; corruptions: field count +1 / -1 / 0x7FFF / negative other than the -1 trailer, value length beyond the stream, truncated last row, garbage after the trailer, a message of another type in the middle of the stream whose body is the rest of the stream; the rows returned by BinaryCopyReader.Read are compared with the encoded rows (value by value through the canonical form), the end of data must be io.EOF, a corruption must be an error and never a row, and the query after the COPY must be served; small message limits (256/1024) with fields of 0.5-5x the limit cut into CopyData messages that each fit; a sixth of the seeded cases are preceded, on the same connection, by a binary COPY into a relation whose columns have the same names but other types; a quarter of the handlers read every row under a context that turns cancelled while the row is read and read again with their live context; non-trivial = the row reader was driven at least once; distinct = distinct case content hashes",
		Exhaustive: "all 2-piece and 3-piece splits of the encoded stream for 3 table shapes x {trailer, no trailer} (streams <= 48 bytes)",
		Components: e1Components, Assumptions: commonAssumptions,
		Fixed: c14Fixed, Gen: genC14, Check: checkC14,
	})
}

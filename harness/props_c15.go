package harness

import (
	"encoding/binary"
	"fmt"
	"regexp"
	"sort"
	"strings"

	"verif/pgwire"
)

// genConcurrent draws n sessions that deliberately use the same statement and
// portal names (and the same column OIDs from different Go types) on one
// server.
func genConcurrent(r *Rand, n int, o histOpts, limit int) *Case {
	c := &Case{Server: ServerCfg{Limit: limit}, Programs: map[string]*Program{}}
	if r.Chance(1, 3) {
		// authenticating users: the password exchange of several connections overlaps
		c.Server.Auth = "cleartext"
	}
	if r.Chance(1, 4) {
		// a probe first: a peer that hangs up or sends junk before a complete
		// startup packet (health check, port scan); whatever the server does with
		// it must not disturb the sessions that follow
		var probe pgwire.FMsg
		switch r.Intn(6) {
		case 4: // a startup packet whose parameter list is not terminated
			probe = startupMsg("probe", "db")
			probe.NoTerm = true
		case 5: // a parameter name without a value
			probe = startupMsg("probe", "db")
			probe.NoTerm = true
			probe.Tail = []byte("orphan-key\x00")
		case 0:
			probe = pgwire.FMsg{K: "raw", Data: nil}
		case 1:
			probe = pgwire.FMsg{K: "raw", Data: r.Bytes(r.Range(1, 7))}
		case 2:
			probe = pgwire.FMsg{K: "raw", Data: []byte("GET / HTTP/1.0\r\n\r\n")}
		case 3:
			probe = startupMsg("probe", "db")
			probe.Cut = intp(r.Range(1, 12))
		}
		c.Conns = append(c.Conns, ConnCase{Steps: []Step{{Msgs: []pgwire.FMsg{probe}}}})
	}
	for i := 0; i < n; i++ {
		oo := o
		oo.prefix = fmt.Sprintf("c%d", i)
		genHistory(r, c, oo)
	}
	if r.Chance(1, 2) {
		// user code that runs while a row is being encoded (a Valuer): a schedule
		// point between the start and the end of a DataRow, so that another
		// connection can run while this one's message is half built
		var keys []string
		for k := range c.Programs {
			keys = append(keys, k)
		}
		sort.Strings(keys)
		for _, k := range keys {
			for _, sp := range c.Programs[k].Stmts {
				for oi := range sp.Ops {
					op := &sp.Ops[oi]
					if op.K != "row" || len(op.Row) != len(sp.Cols) || !r.Chance(1, 3) {
						continue
					}
					for ci, v := range op.Row {
						if v.G == "string" && (sp.Cols[ci].OID == pgwire.OIDText || sp.Cols[ci].OID == pgwire.OIDVarchar) {
							op.YieldIn = ci + 1
							break
						}
					}
				}
			}
		}
	}
	if r.Chance(1, 3) {
		// a twin: a second client sends exactly what one of the sessions sends, so
		// the two run the same statements - the same handler values (column
		// descriptions, programs) are in use on two connections at once
		first := len(c.Conns) - n
		tw := c.Conns[first+r.Intn(n)]
		tw.Cuts = genCuts(r)
		c.Conns = append(c.Conns, tw)
	}
	if r.Chance(1, 5) {
		// peers whose remote addresses print alike (unix-domain socket, in-memory
		// listener, local proxy)
		c.Server.SameAddr = true
	}
	// every read is a schedule decision: keep one-byte segmentation for short
	// sessions only
	for i := range c.Conns {
		var total int64
		for _, m := range c.Conns[i].FlatMsgs() {
			total += int64(len(m.Body())) + m.Pad
		}
		if total > 2000 && len(c.Conns[i].Cuts) > 0 {
			c.Conns[i].Cuts = []int{r.PickInt(64, 500, 4000)}
		}
	}
	c.Sched = &SchedCase{Strategy: r.Pick("uniform", "pct", "pct"), Depth: r.Range(1, 3), MaxSteps: 300000}
	if r.Chance(1, 10) {
		// the listener breaks once all these connections are in: Serve may end,
		// the sessions that exist are served as if nothing had happened
		c.Sched.AcceptErr = true
	}
	return c
}

// checkConcurrent is the solo-versus-concurrent differential: every
// connection's canonical transcript and callback trace under nsched seeded
// schedules of the whole set must equal what the same client traffic produces
// on a server that serves it alone.
func checkConcurrent(prop string, x *Exec, c *Case, nsched int) ([]Violation, bool) {
	var viol []Violation
	n := len(c.Conns)
	soloT := make([]string, n)
	soloE := make([]string, n)
	solos := func() bool {
		for i := 0; i < n; i++ {
			s := c.Clone()
			s.Sched = nil
			s.Conns = []ConnCase{c.Conns[i]}
			r := x.Run(s)
			if len(r.Conns) != 1 {
				return false
			}
			cs := r.Conns[0]
			t := ParseOut(cs)
			viol = append(viol, GrammarViolation(prop, i, t)...)
			soloT[i] = Canonical(t.Msgs)
			soloE[i] = normRemote(CallbackTrace(cs))
			if nm, _ := c.Expect["no_model"].(bool); t.Grammar == nil && !nm {
				if mr := MatchConn(s, cs, t); !mr.OK {
					viol = append(viol, Violation{Prop: prop, Rule: mr.Rule, Sig: mr.Sig, Detail: fmt.Sprintf("conn %d served alone: %s", i, mr.Detail)})
				}
			}
		}
		return true
	}
	// one concurrent run, kept until the solo runs are known
	type concRun struct {
		v       *Case
		k       int
		kinds   []string
		ct, ce  []string
		gv      [][]Violation
		nconns  int
		stuck   *Violation
		budget  bool
		started bool
	}
	concurrent := func(k int) *concRun {
		v := c.Clone()
		v.Sub = c.Sub + uint64(k)*7919
		if k > 0 {
			v.Sched.Schedule = nil
			v.Sched.Strategy = []string{"uniform", "pct", "pct", "uniform"}[k%4]
			v.Sched.Depth = 1 + k%3
		}
		r := x.Run(v)
		v.Sched.Schedule = r.Schedule
		cr := &concRun{v: v, k: k, nconns: len(r.Conns), started: true}
		if r.Outcome == RunBudget {
			// the decision budget of the simulator ran out: inconclusive, not a verdict
			x.Probe("decision_budget_exhausted")
			cr.budget = true
			return cr
		}
		if r.Outcome != RunIdle || r.Dirty {
			cr.stuck = &Violation{Prop: prop, Rule: "concurrent-run-stuck", Sig: "concurrent-run-stuck", Detail: fmt.Sprintf("the concurrent run did not finish: outcome=%d parked=%v %s", r.Outcome, r.Stuck, r.DirtyWhy)}
			return cr
		}
		for i, cs := range r.Conns {
			t := ParseOut(cs)
			cr.gv = append(cr.gv, GrammarViolation(prop, i, t))
			cr.ct = append(cr.ct, Canonical(t.Msgs))
			cr.ce = append(cr.ce, normRemote(CallbackTrace(cs)))
			cr.kinds = append(cr.kinds, pgwire.Kinds(t.Msgs))
		}
		return cr
	}
	// judge compares one concurrent run with the solo runs; done=true ends the check
	judge := func(cr *concRun) (done bool, nontrivial bool) {
		if cr.budget {
			return true, false
		}
		if cr.stuck != nil {
			*c = *cr.v
			viol = []Violation{*cr.stuck}
			return true, true
		}
		for i := range cr.ct {
			if len(cr.gv[i]) > 0 || cr.ct[i] != soloT[i] || cr.ce[i] != soloE[i] {
				*c = *cr.v
				what := "transcript"
				if cr.ct[i] == soloT[i] {
					what = "callback trace"
				}
				viol = append(viol, cr.gv[i]...)
				viol = append(viol, Violation{Prop: prop, Rule: "connection-interference", Sig: "interference " + what,
					Detail: fmt.Sprintf("connection %d of %d: its %s differs between being served alone and being served concurrently (schedule %d):\n  alone:      %s | %s\n  concurrent: %s | %s\n  first difference: %s", i, cr.nconns, what, cr.k,
						trunc(kindsOfCanonical(soloT[i]), 100), trunc(strings.ReplaceAll(soloE[i], "\n", "; "), 200), trunc(cr.kinds[i], 100), trunc(strings.ReplaceAll(cr.ce[i], "\n", "; "), 200), firstDiff(soloT[i]+"|"+soloE[i], cr.ct[i]+"|"+cr.ce[i]))})
				return true, true
			}
		}
		return false, true
	}
	// half of the cases run their first concurrent schedule BEFORE any solo run:
	// whatever the code under test sets up lazily and process-wide (caches,
	// pools, sync.Once) is then first touched by several connections at once
	// instead of being warmed up by a lone session
	var first *concRun
	if c.Sub%2 == 1 && nsched > 0 {
		first = concurrent(0)
	}
	if !solos() {
		return nil, false
	}
	if len(viol) > 0 {
		return viol, true
	}
	for k := 0; k < nsched; k++ {
		cr := first
		if k > 0 || cr == nil {
			cr = concurrent(k)
		}
		if done, nt := judge(cr); done {
			return viol, nt
		}
	}
	return viol, n > 1
}

// firstDiff shows where two renderings part.
func firstDiff(a, b string) string {
	n := 0
	for n < len(a) && n < len(b) && a[n] == b[n] {
		n++
	}
	from := n - 60
	if from < 0 {
		from = 0
	}
	return fmt.Sprintf("at byte %d: alone %q / concurrent %q", n, trunc(a[from:], 160), trunc(b[from:], 160))
}

var remoteRe = regexp.MustCompile(`remote=sim:\d+`)

// normRemote hides the simulated connection id (the solo run of connection i
// is connection 0 of its own server).
func normRemote(s string) string { return remoteRe.ReplaceAllString(s, "remote=sim:*") }

func kindsOfCanonical(s string) string {
	var sb strings.Builder
	depth := 0
	for i := 0; i < len(s); i++ {
		switch s[i] {
		case '(':
			if depth == 0 && i > 0 {
				sb.WriteByte(s[i-1])
			}
			depth++
		case ')':
			depth--
		}
	}
	return sb.String()
}

// genC15TLS: 2-3 clients whose SSLRequests, TLS handshakes and first queries
// overlap on a fresh server (whatever the server derives lazily from its TLS
// configuration is derived while several connections want it).
func genC15TLS(r *Rand) *Case {
	c := &Case{Variant: "concurrent-tls-upgrades", Server: ServerCfg{Limit: 4096, TLS: "certs"}, Programs: map[string]*Program{}}
	if r.Chance(1, 3) {
		c.Server.TLSVia = r.Pick("field", "late-cert")
	}
	if r.Chance(1, 3) {
		// a peer that asks for TLS and then goes silent (it never starts the
		// handshake and keeps the connection open): the others are not its hostages
		for k := r.PickInt(1, 1, 1, 33); k > 0; k-- {
			c.Conns = append(c.Conns, ConnCase{Steps: []Step{{Msgs: []pgwire.FMsg{{K: "ssl"}}}}, NoEOF: true})
		}
	}
	n := r.Range(2, 3)
	if len(c.Conns) > 10 {
		n = 2 // (the scheduler has room for 40 tasks)
	}
	for i := 0; i < n; i++ {
		key := fmt.Sprintf("t%d", i)
		c.Programs[key] = &Program{Stmts: []*StmtProg{{Cols: []ColSpec{{Name: "v", OID: pgwire.OIDText}}, Ops: []Op{{K: "row", Row: []Val{{G: "string", S: key}}}, {K: "complete", Tag: "SELECT 1"}}}}}
		steps := []Step{{Msgs: []pgwire.FMsg{startupMsg(fmt.Sprintf("user%d", i), "db")}}, {Msgs: []pgwire.FMsg{{K: "Q", S1: key}}}, {Msgs: []pgwire.FMsg{{K: "X"}}}}
		tc := &TLSClient{}
		if r.Bool() {
			tc.MaxVer = 0x0303
		}
		c.Conns = append(c.Conns, ConnCase{Steps: steps, TLS: tc})
	}
	c.Sched = &SchedCase{Strategy: r.Pick("uniform", "pct"), Depth: 2, MaxSteps: 400000}
	return c
}

func checkC15TLS(x *Exec, c *Case) ([]Violation, bool) {
	var viol []Violation
	v := c.Clone()
	refT := make([]string, len(c.Conns))
	for i := range c.Conns {
		if c.Conns[i].TLS == nil {
			continue // the silent peer
		}
		ref := c.Clone()
		ref.Sched = nil
		ref.Server.TLS, ref.Server.TLSVia = "", ""
		ref.Conns = []ConnCase{c.Conns[i]}
		ref.Conns[0].TLS = nil
		rr := x.Run(ref)
		if len(rr.Conns) != 1 {
			return nil, false
		}
		refT[i] = Canonical(ParseOut(rr.Conns[0]).Msgs)
		v.Conns[i].TLS.StepBytes = stepOutBytes(rr.Conns[0], len(ref.Conns[0].Steps))
	}
	r := x.Run(v)
	v.Sched.Schedule = r.Schedule
	*c = *v
	if r.Outcome == RunBudget {
		return nil, false
	}
	if r.Outcome != RunIdle {
		return []Violation{{Prop: "C15", Rule: "concurrent-run-stuck", Sig: "concurrent-run-stuck tls", Detail: fmt.Sprintf("the concurrent TLS upgrades did not finish: outcome=%d parked=%v", r.Outcome, r.Stuck)}}, true
	}
	for i, cs := range r.Conns {
		if cs.cc.TLS == nil {
			if string(cs.Out) != "S" {
				viol = append(viol, Violation{Prop: "C15", Rule: "ssl-answer", Sig: "ssl-answer silent peer", Detail: fmt.Sprintf("connection %d asked for TLS and went silent: it was answered %q, want the single byte 'S'", i, trunc(string(cs.Out), 12))})
			}
			continue
		}
		msgs, gerr := pgwire.ParseStream(cs.Plain)
		if !cs.TLSUp || gerr != nil || Canonical(msgs) != refT[i] {
			viol = append(viol, Violation{Prop: "C15", Rule: "connection-interference", Sig: "connection-interference tls",
				Detail: fmt.Sprintf("connection %d of %d upgrading to TLS at the same time: handshake ok=%v, inside TLS it received %q (%v), alone in plaintext %q; client events %v", i, len(r.Conns), cs.TLSUp, pgwire.Kinds(msgs), gerr, refT[i], cs.ClientEvents)})
			break
		}
	}
	return viol, true
}

// genC15Logins: 5-8 connections present a wrong password for one user name,
// one presents the right one - and is served only when the others are done.
// What other connections did with that name is none of its business.
func genC15Logins(r *Rand) *Case {
	c := &Case{Variant: "login-storm", Server: ServerCfg{Limit: 4096, Auth: "cleartext", DefaultAuth: "reject"}, Programs: map[string]*Program{}}
	user, db := "alice"+r.Ident(2), "db"
	c.Server.Validator = []AuthEntry{{DB: db, User: user, PW: "right", Out: "accept"}}
	c.Programs["q"] = &Program{Stmts: []*StmtProg{{Cols: []ColSpec{{Name: "a", OID: pgwire.OIDText}}, Ops: []Op{{K: "row", Row: []Val{{G: "string", S: "ok"}}}, {K: "complete", Tag: "SELECT 1"}}}}}
	nwrong := r.Range(5, 8)
	sc := &SchedCase{Strategy: r.Pick("uniform", "pct"), Depth: 1, MaxSteps: 300000}
	for i := 0; i < nwrong; i++ {
		c.Conns = append(c.Conns, ConnCase{Steps: []Step{{Msgs: []pgwire.FMsg{startupMsg(user, db)}}, {Msgs: []pgwire.FMsg{{K: "p", S1: r.Pick("wrong", "Right", "right ", "")}}}}})
		sc.Holds = append(sc.Holds, Hold{Task: 1 + nwrong, Point: "read", Until: 1 + i, UntilPoint: "close"})
	}
	c.Conns = append(c.Conns, ConnCase{Steps: []Step{{Msgs: []pgwire.FMsg{startupMsg(user, db)}}, {Msgs: []pgwire.FMsg{{K: "p", S1: "right"}}}, {Msgs: []pgwire.FMsg{{K: "Q", S1: "q"}}}}})
	c.Sched = sc
	return c
}

// genC15Cancel: one session's middleware-derived context ends (a statement
// cancels it) and the client goes on sending; the sessions beside it are
// served as if nothing had happened.
func genC15Cancel(r *Rand) *Case {
	c := &Case{Variant: "session-context-ends", Server: ServerCfg{Limit: 4096, MW: []MWSpec{{Cancel: true}}}, Programs: map[string]*Program{}, Expect: map[string]any{"no_model": true}}
	col := []ColSpec{{Name: "a", OID: pgwire.OIDText}}
	c.Programs["a1"] = &Program{Stmts: []*StmtProg{{Cols: col, Ops: []Op{{K: "complete", Tag: "A1"}, {K: "cancel"}}}}}
	c.Programs["q"] = &Program{Stmts: []*StmtProg{{Cols: col, Ops: []Op{{K: "row", Row: []Val{{G: "string", S: "ok"}}}, {K: "complete", Tag: "SELECT 1"}}}}}
	c.Conns = append(c.Conns, ConnCase{Steps: []Step{{Msgs: []pgwire.FMsg{startupMsg("a", "d")}}, {Msgs: []pgwire.FMsg{{K: "Q", S1: "a1"}}}, {Msgs: []pgwire.FMsg{{K: "Q", S1: "q"}}}, {Msgs: []pgwire.FMsg{{K: "Q", S1: "q"}}}}})
	for n := r.Range(1, 3); n > 0; n-- {
		steps := []Step{{Msgs: []pgwire.FMsg{startupMsg(fmt.Sprintf("b%d", n), "d")}}}
		for q := r.Range(2, 4); q > 0; q-- {
			steps = append(steps, Step{Msgs: []pgwire.FMsg{{K: "Q", S1: "q"}}})
		}
		c.Conns = append(c.Conns, ConnCase{Steps: steps})
	}
	c.Sched = &SchedCase{Strategy: r.Pick("uniform", "pct"), Depth: r.Range(1, 2), MaxSteps: 300000}
	return c
}

// int4ArrayBinary is the binary form of a one-dimensional int4[] value.
func int4ArrayBinary(vals []int32) []byte {
	var b []byte
	b = binary.BigEndian.AppendUint32(b, 1)  // dimensions
	b = binary.BigEndian.AppendUint32(b, 0)  // no NULLs
	b = binary.BigEndian.AppendUint32(b, 23) // element type int4
	b = binary.BigEndian.AppendUint32(b, uint32(len(vals)))
	b = binary.BigEndian.AppendUint32(b, 1) // lower bound
	for _, v := range vals {
		b = binary.BigEndian.AppendUint32(b, 4)
		b = binary.BigEndian.AppendUint32(b, uint32(v))
	}
	return b
}

// genC15BinCopy: 2-3 connections load rows with array-typed columns through
// the documented binary COPY row reader at the same time (decoding an array
// consults the connection's type map for its element type).
func genC15BinCopy(r *Rand) *Case {
	c := &Case{Variant: "binary-copy-side-by-side", Server: ServerCfg{Limit: 65536}, Programs: map[string]*Program{probeKey: probeProgram()}, Expect: map[string]any{"no_model": true}}
	n := r.Range(2, 3)
	shared := r.Bool()
	for i := 0; i < n; i++ {
		key := fmt.Sprintf("cp%d", i)
		if shared {
			key = "cp"
		}
		cols := []ColSpec{{Name: "ids", OID: 1007}, {Name: "label", OID: pgwire.OIDText}}
		if r.Bool() {
			cols = append(cols, ColSpec{Name: "more", OID: 1007})
		}
		c.Programs[key] = &Program{Stmts: []*StmtProg{{Cols: cols, Ops: []Op{{K: "copyin", Fmt: 1}, {K: "binrows"}, {K: "finishcopy", Tag: "COPY"}}}}}
		ncols := len(c.Programs[key].Stmts[0].Cols)
		var rows [][][]byte
		for k := r.Range(1, 4); k > 0; k-- {
			row := make([][]byte, ncols)
			for j := 0; j < ncols; j++ {
				if j == 1 {
					row[j] = []byte(r.Ident(r.Range(0, 8)))
					continue
				}
				vals := make([]int32, r.Range(0, 4))
				for q := range vals {
					vals[q] = int32(r.Intn(1000)) - 500
				}
				row[j] = int4ArrayBinary(vals)
			}
			rows = append(rows, row)
		}
		stream := pgwire.EncodeBinaryCopy(rows, r.Bool())
		msgs := []pgwire.FMsg{{K: "Q", S1: key}}
		for off := 0; off < len(stream); {
			p := r.PickInt(len(stream), 7, 19, 40)
			if off+p > len(stream) {
				p = len(stream) - off
			}
			msgs = append(msgs, pgwire.FMsg{K: "d", Data: append([]byte{}, stream[off:off+p]...)})
			off += p
		}
		msgs = append(msgs, pgwire.FMsg{K: "c"}, pgwire.FMsg{K: "Q", S1: probeKey})
		c.Conns = append(c.Conns, ConnCase{Steps: []Step{{Msgs: []pgwire.FMsg{startupMsg(fmt.Sprintf("u%d", i), "d")}}, {Msgs: msgs}}})
	}
	c.Sched = &SchedCase{Strategy: r.Pick("uniform", "pct", "pct"), Depth: r.Range(1, 3), MaxSteps: 300000}
	return c
}

// genC15LargeIdle: 8-11 sessions each send one message of a little over 1 MiB
// (well within the limit) and then sit idle; one more session does the same
// and goes on with a query. Whatever the server holds on behalf of the idle
// ones, the last session is served as if it were alone.
func genC15LargeIdle(r *Rand) *Case {
	c := &Case{Variant: "large-messages-then-idle", Server: ServerCfg{Limit: r.PickInt(2<<20, 4<<20, 0)}, Programs: map[string]*Program{probeKey: probeProgram()}, Expect: map[string]any{"no_model": true}}
	n := r.Range(8, 11)
	size := 1<<20 + r.PickInt(0, 1, 16, 4096)
	// (a stray CopyData: ignored outside COPY, so that the bulk goes through the
	// server's reader and nowhere else)
	big := pgwire.FMsg{K: "d", Data: make([]byte, size)}
	sc := &SchedCase{Strategy: r.Pick("uniform", "pct"), Depth: 1, MaxSteps: 300000}
	for i := 0; i < n; i++ {
		c.Conns = append(c.Conns, ConnCase{Steps: []Step{{Msgs: []pgwire.FMsg{startupMsg(fmt.Sprintf("idle%d", i), "d")}}, {Msgs: []pgwire.FMsg{big}}}, NoEOF: true})
		sc.Holds = append(sc.Holds, Hold{Task: 1 + n, Point: "conn.start", Until: 1 + i, UntilPoint: "idle"})
	}
	c.Conns = append(c.Conns, ConnCase{Steps: []Step{{Msgs: []pgwire.FMsg{startupMsg("last", "d")}}, {Msgs: []pgwire.FMsg{big}}, {Msgs: []pgwire.FMsg{{K: "Q", S1: probeKey}}}}})
	c.Sched = sc
	return c
}

func init() {
	register(&Prop{
		ID: "C15", Level: "exploration", QuickS: 30, ThoroughS: 480, Race: true,
		Rule: "seeded sets of 2-5 sessions drawn from the generators of C05-C09/C13 (simple and extended queries, COPY, failing handlers, Close) that deliberately use the same statement/portal names, different users and different Go row types for the same OIDs; each session is first served alone on a fresh server (E1), then all together on one server under 4 (quick) / 8 (thorough) seeded schedules (uniform, PCT depth 1-3; schedule points at every transport operation, callback entry, row write and spliced sync operation, so handler executions interleave at row granularity and one connection may be starved until the others are done); oracle (a): per connection the canonical transcript and callback trace equal the solo ones; oracle (b): the -race shard with the HB-transparent scheduler reports nothing (a report is attributed to the case and confirmed by replaying it alone in a fresh -race process); in half of the sets some row values are Valuers whose TextValue() is a schedule point (user code running between the start and the end of a DataRow); a third of the sets contain a twin (a second client sending exactly what one of the sessions sends: the same statements, and with them the same handler-owned column descriptions, are in use on two connections at once), in a fifth every peer's remote address prints the same text (unix-domain socket, in-memory listener); a quarter of the sets are preceded by a probe connection (EOF, junk, HTTP request or truncated startup packet); a tenth of the cases are 2-3 clients that upgrade to TLS at the same time on a fresh server and run a short session each (transcripts compared with the plaintext solo runs; the -race shard covers the upgrade path); variants: login-storm (5-8 wrong-password connections for one user name, then the right one), session-context-ends (one session's middleware-derived context is cancelled and the client goes on sending beside ordinary sessions), binary-copy-side-by-side (2-3 connections load rows with int4[] columns through the binary COPY row reader at the same time), large-messages-then-idle (8-11 sessions idle after a message of a little over 1 MiB, one more session sends the same and goes on); half of the cases run their first concurrent schedule before any solo run, so that lazily initialised process-wide state is first touched by several connections at once; non-trivial = at least two connections; distinct = distinct case content hashes; distinct_interleavings = distinct (task, point) decision sequences",
		Components: []string{
			"real: everything on the serving path (accept loop, per-connection goroutines, handshake, command loop, caches, type maps, writers, COPY readers, pgx codecs)",
			"stub: listener/connections, handler programs; scheduler: harness/kernel.go serialises and chooses goroutines; race oracle: Go race detector of the -race worker, kernel synchronisation hidden via runtime.RaceDisable and //go:norace",
		},
		Assumptions: append(append([]string{}, commonAssumptions...), "execution is serialised by the scheduler, so torn accesses cannot occur in a run; unsynchronised sharing is decided by the happens-before oracle instead"),
		Gen: func(r *Rand, tier string) *Case {
			if r.Chance(1, 10) {
				return genC15TLS(r)
			}
			if r.Chance(1, 25) {
				return genC15Logins(r)
			}
			if r.Chance(1, 25) {
				return genC15Cancel(r)
			}
			if r.Chance(1, 25) {
				return genC15BinCopy(r)
			}
			if r.Chance(1, 150) {
				return genC15LargeIdle(r)
			}
			c := genConcurrent(r, r.Range(2, 5), histOpts{simple: true, extended: true, copy: r.Chance(1, 3), errs: true, params: true, binary: true, rich: true, typedNull: true, closes: true, unknownNames: true, multi: true, maxUnits: 4}, r.PickInt(1000, 4096, 65536))
			// (how many ExtendTypes options the server was given decides the spare
			// capacity of the slice they are kept in)
			c.Server.ExtendTypes = r.PickInt(0, 0, 1, 2, 3, 4, 5, 6, 7)
			// half of the sets run on a server with user-supplied global parameters,
			// middlewares and callbacks that read their context back (client and
			// server parameters, user, remote address): per-connection values that
			// leak between connections show up in the callback trace
			if r.Bool() {
				genGlobalParams(r, c)
				if c.Server.Params == nil {
					c.Server.Params = map[string]string{"x_app": "sim"}
				}
				for n := r.Intn(3); n > 0; n-- {
					c.Server.MW = append(c.Server.MW, MWSpec{})
				}
				c.Variant = "inspect"
			}
			return c
		},
		Check: func(x *Exec, c *Case) ([]Violation, bool) {
			if c.Variant == "concurrent-tls-upgrades" {
				return checkC15TLS(x, c)
			}
			n := 4
			if RaceEnabled || x.HashOn {
				n = 2
			}
			if c.Variant == "large-messages-then-idle" {
				if RaceEnabled {
					// (a dozen MiB-sized messages under the race detector cost more
					// than the watchdog allows; the plain shard runs this variant)
					return nil, false
				}
				n = 1
			}
			return checkConcurrent("C15", x, c, n)
		},
	})
}

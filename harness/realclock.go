package harness

import (
	"sync/atomic"
	"time"
)

// The wall clock inside a synctest bubble is fake. A ticker goroutine started
// at init time (outside every bubble) publishes the real clock.
var realClockNs atomic.Int64

func init() {
	realClockNs.Store(time.Now().UnixNano())
	go func() {
		for {
			time.Sleep(200 * time.Millisecond)
			realClockNs.Store(time.Now().UnixNano())
		}
	}()
}

func realClock() int64 { return realClockNs.Load() }

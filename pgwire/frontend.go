package pgwire

import (
	"encoding/binary"
	"encoding/json"
	"unicode/utf8"
)

// Protocol constants (from the protocol documentation).
const (
	ProtoV3     = 196608
	ProtoCancel = 80877102
	ProtoSSL    = 80877103
	ProtoGSS    = 80877104
)

// Param is one Bind parameter value.
type Param struct {
	Null bool   `json:"null,omitempty"`
	V    []byte `json:"v,omitempty"`
}

// FMsg is a serialisable frontend message. K selects the kind:
//
//	startup  Proto, KV (key/value pairs), NoTerm (omit final terminator)
//	ssl, cancel, gss    fixed 8/16 byte packets
//	p  S1=password        Q  S1=query            P  S1=name S2=query OIDs
//	B  S1=portal S2=statement PFmt Params RFmt   D/C  Sub ('S'|'P') S1=name
//	E  S1=portal Limit    H S X c  empty         d  Data       f  S1=reason
//	typed  T + Data as body                       raw  Data verbatim
//
// Malformation knobs apply to every kind but raw: Tail is appended inside the
// declared length; DeclLen overrides the length word; NoNul drops the final
// byte of the body; Cut keeps only the first Cut bytes of the encoding; Pad
// appends Pad synthetic body bytes (pattern PadPat, counted in the declared
// length unless DeclLen is set) that are produced lazily and never allocated.
type FMsg struct {
	K       string      `json:"k"`
	S1      string      `json:"s1,omitempty"`
	S2      string      `json:"s2,omitempty"`
	Sub     byte        `json:"sub,omitempty"`
	T       byte        `json:"t,omitempty"`
	OIDs    []uint32    `json:"oids,omitempty"`
	PFmt    []int16     `json:"pfmt,omitempty"`
	Params  []Param     `json:"params,omitempty"`
	RFmt    []int16     `json:"rfmt,omitempty"`
	Limit   uint32      `json:"limit,omitempty"`
	Data    []byte      `json:"data,omitempty"`
	Proto   uint32      `json:"proto,omitempty"`
	KV      [][2]string `json:"kv,omitempty"`
	NoTerm  bool        `json:"noterm,omitempty"`
	Tail    []byte      `json:"tail,omitempty"`
	DeclLen *uint32     `json:"decllen,omitempty"`
	NoNul   bool        `json:"nonul,omitempty"`
	Cut     *int        `json:"cut,omitempty"`
	Pad     int64       `json:"pad,omitempty"`
	PadPat  []byte      `json:"padpat,omitempty"`
	// NParams / NPFmt / NRFmt override the counts written into a Bind message
	// (value -1 = use the real count).
	CountOverride map[string]int `json:"cnt,omitempty"`
	// Rep (K "flood"): the body-less message of type T, Rep times in a row.
	Rep int64 `json:"rep,omitempty"`
}

// S1 and S2 are byte strings (a query text need not be valid UTF-8), which
// encoding/json would silently repair: such values travel as base64 instead.
type fmsgPlain FMsg

type fmsgJSON struct {
	fmsgPlain
	S1B []byte `json:"s1_bytes,omitempty"`
	S2B []byte `json:"s2_bytes,omitempty"`
}

// MarshalJSON implements json.Marshaler.
func (m FMsg) MarshalJSON() ([]byte, error) {
	aux := fmsgJSON{fmsgPlain: fmsgPlain(m)}
	if !utf8.ValidString(m.S1) {
		aux.S1B, aux.S1 = []byte(m.S1), ""
	}
	if !utf8.ValidString(m.S2) {
		aux.S2B, aux.S2 = []byte(m.S2), ""
	}
	return json.Marshal(aux)
}

// UnmarshalJSON implements json.Unmarshaler.
func (m *FMsg) UnmarshalJSON(b []byte) error {
	var aux fmsgJSON
	if err := json.Unmarshal(b, &aux); err != nil {
		return err
	}
	*m = FMsg(aux.fmsgPlain)
	if aux.S1B != nil {
		m.S1 = string(aux.S1B)
	}
	if aux.S2B != nil {
		m.S2 = string(aux.S2B)
	}
	return nil
}

type enc struct{ b []byte }

func (e *enc) u8(v byte)    { e.b = append(e.b, v) }
func (e *enc) i16(v int16)  { e.b = binary.BigEndian.AppendUint16(e.b, uint16(v)) }
func (e *enc) u16(v uint16) { e.b = binary.BigEndian.AppendUint16(e.b, v) }
func (e *enc) i32(v int32)  { e.b = binary.BigEndian.AppendUint32(e.b, uint32(v)) }
func (e *enc) u32(v uint32) { e.b = binary.BigEndian.AppendUint32(e.b, v) }
func (e *enc) cstr(s string) {
	e.b = append(e.b, s...)
	e.b = append(e.b, 0)
}

// TypeByte returns the message type byte (0 for untyped startup-phase packets
// and raw bytes).
func (m *FMsg) TypeByte() byte {
	switch m.K {
	case "startup", "ssl", "cancel", "gss", "raw", "flood":
		return 0
	case "typed":
		return m.T
	}
	if len(m.K) == 1 {
		return m.K[0]
	}
	return 0
}

// Body encodes the message body (without type byte and length word), before
// malformation knobs.
func (m *FMsg) Body() []byte {
	e := &enc{}
	cnt := func(key string, real int) uint16 {
		if v, ok := m.CountOverride[key]; ok && v >= 0 {
			return uint16(v)
		}
		return uint16(real)
	}
	switch m.K {
	case "startup":
		p := m.Proto
		if p == 0 {
			p = ProtoV3
		}
		e.u32(p)
		for _, kv := range m.KV {
			e.cstr(kv[0])
			e.cstr(kv[1])
		}
		if !m.NoTerm {
			e.u8(0)
		}
	case "ssl":
		e.u32(ProtoSSL)
		// (an SSLRequest that declares more than its 8 bytes: whatever follows the
		// request code belongs to the request and to nothing else)
		e.b = append(e.b, m.Data...)
	case "gss":
		e.u32(ProtoGSS)
	case "cancel":
		e.u32(ProtoCancel)
		if m.Data != nil {
			// a cancel key of another length (protocol 3.2 keys are longer), or a
			// truncated one
			e.b = append(e.b, m.Data...)
		} else {
			e.u32(1234)
			e.u32(5678)
		}
	case "p", "Q", "f":
		e.cstr(m.S1)
	case "P":
		e.cstr(m.S1)
		e.cstr(m.S2)
		e.u16(cnt("oids", len(m.OIDs)))
		for _, o := range m.OIDs {
			e.u32(o)
		}
	case "B":
		e.cstr(m.S1)
		e.cstr(m.S2)
		e.u16(cnt("pfmt", len(m.PFmt)))
		for _, f := range m.PFmt {
			e.i16(f)
		}
		e.u16(cnt("params", len(m.Params)))
		for _, p := range m.Params {
			if p.Null {
				e.i32(-1)
				continue
			}
			e.i32(int32(len(p.V)))
			e.b = append(e.b, p.V...)
		}
		e.u16(cnt("rfmt", len(m.RFmt)))
		for _, f := range m.RFmt {
			e.i16(f)
		}
	case "D", "C":
		e.u8(m.Sub)
		e.cstr(m.S1)
	case "E":
		e.cstr(m.S1)
		e.u32(m.Limit)
	case "H", "S", "X", "c":
	case "d", "typed":
		e.b = append(e.b, m.Data...)
	}
	return e.b
}

// Chunk is a piece of client input: literal bytes, or N bytes spelled by
// repeating Pat (never materialised).
type Chunk struct {
	Lit []byte
	Pat []byte
	N   int64
}

// Len is the number of bytes the chunk stands for.
func (c Chunk) Len() int64 {
	if c.Pat != nil {
		return c.N
	}
	return int64(len(c.Lit))
}

// Encode returns the wire encoding as chunks, applying malformation knobs.
func (m *FMsg) Encode() []Chunk {
	if m.K == "raw" {
		return []Chunk{{Lit: append([]byte(nil), m.Data...)}}
	}
	if m.K == "flood" {
		// (with Data: that message of type T, repeated)
		pat := binary.BigEndian.AppendUint32([]byte{m.T}, uint32(4+len(m.Data)))
		pat = append(pat, m.Data...)
		return []Chunk{{Pat: pat, N: int64(len(pat)) * m.Rep}}
	}
	body := m.Body()
	if m.NoNul && len(body) > 0 {
		body = body[:len(body)-1]
	}
	body = append(body, m.Tail...)
	declared := uint64(len(body)) + 4 + uint64(m.Pad)
	if m.DeclLen != nil {
		declared = uint64(*m.DeclLen)
	}
	var out []byte
	if t := m.TypeByte(); t != 0 {
		out = append(out, t)
	}
	out = binary.BigEndian.AppendUint32(out, uint32(declared))
	out = append(out, body...)
	if m.Cut != nil && *m.Cut >= 0 && *m.Cut < len(out) {
		return []Chunk{{Lit: out[:*m.Cut]}}
	}
	chunks := []Chunk{{Lit: out}}
	if m.Pad > 0 {
		pat := m.PadPat
		if len(pat) == 0 {
			pat = []byte{'x'}
		}
		chunks = append(chunks, Chunk{Pat: pat, N: m.Pad})
	}
	return chunks
}

// Bytes returns the literal encoding; it panics on synthetic padding larger
// than 1 MiB (callers that use Pad must work with chunks).
func (m *FMsg) Bytes() []byte {
	var out []byte
	for _, c := range m.Encode() {
		if c.Pat != nil {
			if c.N > 1<<20 {
				panic("pgwire: Bytes() on a message with large synthetic padding")
			}
			for i := int64(0); i < c.N; i++ {
				out = append(out, c.Pat[int(i)%len(c.Pat)])
			}
			continue
		}
		out = append(out, c.Lit...)
	}
	return out
}

// DeclaredBody returns the body size the message declares on the wire
// (length word minus 4), as the server will see it, and whether the message is
// typed.
func (m *FMsg) DeclaredBody() int64 {
	if m.DeclLen != nil {
		return int64(*m.DeclLen) - 4
	}
	body := m.Body()
	n := int64(len(body))
	if m.NoNul && n > 0 {
		n--
	}
	return n + int64(len(m.Tail)) + m.Pad
}

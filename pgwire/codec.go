package pgwire

import (
	"bytes"
	"encoding/binary"
	"encoding/hex"
	"fmt"
	"math"
	"strconv"
	"strings"
)

// Type OIDs (from pg_type.dat).
const (
	OIDBool        = 16
	OIDBytea       = 17
	OIDInt8        = 20
	OIDInt2        = 21
	OIDInt4        = 23
	OIDText        = 25
	OIDOid         = 26
	OIDFloat4      = 700
	OIDFloat8      = 701
	OIDVarchar     = 1043
	OIDDate        = 1082
	OIDTimestamp   = 1114
	OIDTimestamptz = 1184
	OIDUUID        = 2950
	// character-like types: the value is its text in both formats, except that
	// binary jsonb is prefixed with its version byte (1)
	OIDName   = 19
	OIDJSON   = 114
	OIDBPChar = 1042
	OIDJSONB  = 3802
)

// CoveredOIDs lists the column types the independent codecs cover.
var CoveredOIDs = []uint32{OIDBool, OIDBytea, OIDInt8, OIDInt2, OIDInt4, OIDText, OIDOid, OIDFloat4, OIDFloat8, OIDVarchar, OIDDate, OIDTimestamp, OIDTimestamptz, OIDUUID, OIDName, OIDJSON, OIDBPChar, OIDJSONB}

// Value is the canonical, comparable form of a SQL value.
type Value struct {
	Null bool   `json:"null,omitempty"`
	Kind string `json:"kind,omitempty"` // bool int f32 f64 text bytes uuid date ts
	I    int64  `json:"i,omitempty"`
	F    uint64 `json:"f,omitempty"` // IEEE bits (f32: float32 bits)
	S    string `json:"s,omitempty"`
	B    []byte `json:"b,omitempty"`
}

func (v Value) String() string {
	if v.Null {
		return "NULL"
	}
	switch v.Kind {
	case "bool", "int", "date", "ts", "infinity":
		return fmt.Sprintf("%s(%d)", v.Kind, v.I)
	case "f32":
		return fmt.Sprintf("f32(%v/%#x)", math.Float32frombits(uint32(v.F)), v.F)
	case "f64":
		return fmt.Sprintf("f64(%v/%#x)", math.Float64frombits(v.F), v.F)
	case "text":
		return fmt.Sprintf("text(%q)", v.S)
	}
	return fmt.Sprintf("%s(%x)", v.Kind, v.B)
}

// Equal compares two canonical values; NaN equals NaN, +0 differs from -0.
func (v Value) Equal(o Value) bool {
	if v.Null || o.Null {
		return v.Null == o.Null
	}
	if v.Kind != o.Kind {
		return false
	}
	switch v.Kind {
	case "f32":
		a, b := math.Float32frombits(uint32(v.F)), math.Float32frombits(uint32(o.F))
		if a != a && b != b {
			return true
		}
		return uint32(v.F) == uint32(o.F)
	case "f64":
		a, b := math.Float64frombits(v.F), math.Float64frombits(o.F)
		if a != a && b != b {
			return true
		}
		return v.F == o.F
	case "text":
		return v.S == o.S
	case "bytes", "uuid":
		return bytes.Equal(v.B, o.B)
	}
	return v.I == o.I
}

// KindOf returns the canonical kind for a covered OID ("" when not covered).
func KindOf(oid uint32) string {
	switch oid {
	case OIDBool:
		return "bool"
	case OIDInt2, OIDInt4, OIDInt8, OIDOid:
		return "int"
	case OIDFloat4:
		return "f32"
	case OIDFloat8:
		return "f64"
	case OIDText, OIDVarchar, OIDName, OIDJSON, OIDBPChar, OIDJSONB:
		return "text"
	case OIDBytea:
		return "bytes"
	case OIDUUID:
		return "uuid"
	case OIDDate:
		return "date"
	case OIDTimestamp, OIDTimestamptz:
		return "ts"
	}
	return ""
}

func intRange(oid uint32) (int64, int64) {
	switch oid {
	case OIDInt2:
		return math.MinInt16, math.MaxInt16
	case OIDInt4:
		return math.MinInt32, math.MaxInt32
	case OIDOid:
		return 0, math.MaxUint32
	}
	return math.MinInt64, math.MaxInt64
}

// Decode decodes b (non-NULL) in the given format for the given type.
func Decode(oid uint32, format int16, b []byte) (Value, error) {
	if format == 1 {
		return decodeBinary(oid, b)
	}
	if format != 0 {
		return Value{}, fmt.Errorf("format code %d", format)
	}
	return decodeText(oid, string(b))
}

func decodeBinary(oid uint32, b []byte) (Value, error) {
	need := func(n int) error {
		if len(b) != n {
			return fmt.Errorf("binary value of oid %d has %d byte(s), want %d", oid, len(b), n)
		}
		return nil
	}
	switch oid {
	case OIDBool:
		if err := need(1); err != nil {
			return Value{}, err
		}
		if b[0] > 1 {
			return Value{}, fmt.Errorf("binary bool byte %d", b[0])
		}
		return Value{Kind: "bool", I: int64(b[0])}, nil
	case OIDInt2:
		if err := need(2); err != nil {
			return Value{}, err
		}
		return Value{Kind: "int", I: int64(int16(binary.BigEndian.Uint16(b)))}, nil
	case OIDInt4:
		if err := need(4); err != nil {
			return Value{}, err
		}
		return Value{Kind: "int", I: int64(int32(binary.BigEndian.Uint32(b)))}, nil
	case OIDOid:
		if err := need(4); err != nil {
			return Value{}, err
		}
		return Value{Kind: "int", I: int64(binary.BigEndian.Uint32(b))}, nil
	case OIDInt8:
		if err := need(8); err != nil {
			return Value{}, err
		}
		return Value{Kind: "int", I: int64(binary.BigEndian.Uint64(b))}, nil
	case OIDFloat4:
		if err := need(4); err != nil {
			return Value{}, err
		}
		return Value{Kind: "f32", F: uint64(binary.BigEndian.Uint32(b))}, nil
	case OIDFloat8:
		if err := need(8); err != nil {
			return Value{}, err
		}
		return Value{Kind: "f64", F: binary.BigEndian.Uint64(b)}, nil
	case OIDText, OIDVarchar, OIDName, OIDJSON, OIDBPChar:
		return Value{Kind: "text", S: string(b)}, nil
	case OIDJSONB:
		if len(b) == 0 || b[0] != 1 {
			return Value{}, fmt.Errorf("binary jsonb does not start with version byte 1: %q", b)
		}
		return Value{Kind: "text", S: string(b[1:])}, nil
	case OIDBytea:
		return Value{Kind: "bytes", B: append([]byte{}, b...)}, nil
	case OIDUUID:
		if err := need(16); err != nil {
			return Value{}, err
		}
		return Value{Kind: "uuid", B: append([]byte{}, b...)}, nil
	case OIDDate:
		if err := need(4); err != nil {
			return Value{}, err
		}
		return Value{Kind: "date", I: int64(int32(binary.BigEndian.Uint32(b)))}, nil
	case OIDTimestamp, OIDTimestamptz:
		if err := need(8); err != nil {
			return Value{}, err
		}
		return Value{Kind: "ts", I: int64(binary.BigEndian.Uint64(b))}, nil
	}
	return Value{}, fmt.Errorf("oid %d not covered", oid)
}

func parseFloatText(s string, bits int) (float64, error) {
	// PostgreSQL's float input accepts these spellings case-insensitively
	switch strings.ToLower(s) {
	case "nan":
		return math.NaN(), nil
	case "infinity", "inf", "+infinity", "+inf":
		return math.Inf(1), nil
	case "-infinity", "-inf":
		return math.Inf(-1), nil
	}
	for i := 0; i < len(s); i++ {
		c := s[i]
		if !(c >= '0' && c <= '9' || c == '-' || c == '+' || c == '.' || c == 'e' || c == 'E') {
			return 0, fmt.Errorf("float text %q", s)
		}
	}
	return strconv.ParseFloat(s, bits)
}

func decodeText(oid uint32, s string) (Value, error) {
	switch oid {
	case OIDBool:
		switch s {
		case "t":
			return Value{Kind: "bool", I: 1}, nil
		case "f":
			return Value{Kind: "bool", I: 0}, nil
		}
		return Value{}, fmt.Errorf("bool text %q (server output is t or f)", s)
	case OIDInt2, OIDInt4, OIDInt8, OIDOid:
		lo, hi := intRange(oid)
		if oid == OIDOid {
			u, err := strconv.ParseUint(s, 10, 32)
			if err != nil {
				return Value{}, fmt.Errorf("oid text %q", s)
			}
			return Value{Kind: "int", I: int64(u)}, nil
		}
		if s == "" || s[0] == '+' {
			return Value{}, fmt.Errorf("integer text %q", s)
		}
		i, err := strconv.ParseInt(s, 10, 64)
		if err != nil || i < lo || i > hi {
			return Value{}, fmt.Errorf("integer text %q out of range for oid %d", s, oid)
		}
		return Value{Kind: "int", I: i}, nil
	case OIDFloat4:
		f, err := parseFloatText(s, 32)
		if err != nil {
			return Value{}, err
		}
		return Value{Kind: "f32", F: uint64(math.Float32bits(float32(f)))}, nil
	case OIDFloat8:
		f, err := parseFloatText(s, 64)
		if err != nil {
			return Value{}, err
		}
		return Value{Kind: "f64", F: math.Float64bits(f)}, nil
	case OIDText, OIDVarchar, OIDName, OIDJSON, OIDBPChar, OIDJSONB:
		return Value{Kind: "text", S: s}, nil
	case OIDBytea:
		if strings.HasPrefix(s, `\x`) {
			b, err := hex.DecodeString(s[2:])
			if err != nil {
				return Value{}, fmt.Errorf("bytea hex text %q", s)
			}
			return Value{Kind: "bytes", B: b}, nil
		}
		var out []byte
		for i := 0; i < len(s); i++ {
			if s[i] != '\\' {
				out = append(out, s[i])
				continue
			}
			if i+1 < len(s) && s[i+1] == '\\' {
				out = append(out, '\\')
				i++
				continue
			}
			if i+3 < len(s) {
				v, err := strconv.ParseUint(s[i+1:i+4], 8, 8)
				if err == nil {
					out = append(out, byte(v))
					i += 3
					continue
				}
			}
			return Value{}, fmt.Errorf("bytea escape text %q", s)
		}
		if out == nil {
			out = []byte{}
		}
		return Value{Kind: "bytes", B: out}, nil
	case OIDUUID:
		if len(s) != 36 || s[8] != '-' || s[13] != '-' || s[18] != '-' || s[23] != '-' {
			return Value{}, fmt.Errorf("uuid text %q", s)
		}
		b, err := hex.DecodeString(s[0:8] + s[9:13] + s[14:18] + s[19:23] + s[24:])
		if err != nil {
			return Value{}, fmt.Errorf("uuid text %q", s)
		}
		return Value{Kind: "uuid", B: b}, nil
	case OIDDate:
		d, err := parseDateText(s)
		if err != nil {
			return Value{}, err
		}
		return Value{Kind: "date", I: d}, nil
	case OIDTimestamp, OIDTimestamptz:
		t, err := parseTimestampText(s, oid == OIDTimestamptz)
		if err != nil {
			return Value{}, err
		}
		return Value{Kind: "ts", I: t}, nil
	}
	return Value{}, fmt.Errorf("oid %d not covered", oid)
}

// daysFromCivil: days since 2000-01-01 for a proleptic Gregorian date
// (Howard Hinnant's algorithm, shifted from the 1970 epoch).
func daysFromCivil(y, m, d int64) int64 {
	if m <= 2 {
		y--
	}
	era := y / 400
	if y < 0 {
		era = (y - 399) / 400
	}
	yoe := y - era*400
	mp := (m + 9) % 12
	doy := (153*mp+2)/5 + d - 1
	doe := yoe*365 + yoe/4 - yoe/100 + doy
	return era*146097 + doe - 719468 - 10957
}

func parseDateText(s string) (int64, error) {
	switch s {
	case "infinity":
		return math.MaxInt32, nil
	case "-infinity":
		return math.MinInt32, nil
	}
	bc := false
	if strings.HasSuffix(s, " BC") {
		bc = true
		s = strings.TrimSuffix(s, " BC")
	}
	parts := strings.Split(s, "-")
	if len(parts) != 3 || len(parts[1]) != 2 || len(parts[2]) != 2 || len(parts[0]) < 4 {
		return 0, fmt.Errorf("date text %q", s)
	}
	y, e1 := strconv.ParseInt(parts[0], 10, 64)
	m, e2 := strconv.ParseInt(parts[1], 10, 64)
	d, e3 := strconv.ParseInt(parts[2], 10, 64)
	if e1 != nil || e2 != nil || e3 != nil || m < 1 || m > 12 || d < 1 || d > 31 {
		return 0, fmt.Errorf("date text %q", s)
	}
	if bc {
		y = 1 - y
	}
	return daysFromCivil(y, m, d), nil
}

func parseTimestampText(s string, tz bool) (int64, error) {
	switch s {
	case "infinity":
		return math.MaxInt64, nil
	case "-infinity":
		return math.MinInt64, nil
	}
	orig := s
	bc := false
	if strings.HasSuffix(s, " BC") {
		bc = true
		s = strings.TrimSuffix(s, " BC")
	}
	sp := strings.IndexByte(s, ' ')
	if sp < 0 {
		return 0, fmt.Errorf("timestamp text %q", orig)
	}
	datePart, timePart := s[:sp], s[sp+1:]
	if bc {
		datePart += " BC"
	}
	days, err := parseDateText(datePart)
	if err != nil {
		return 0, fmt.Errorf("timestamp text %q", orig)
	}
	var offSec int64
	if tz {
		// zone suffix: Z | (+|-)hh[:mm[:ss]]
		idx := strings.LastIndexAny(timePart, "+-Z")
		if idx < 0 {
			return 0, fmt.Errorf("timestamptz text %q has no zone", orig)
		}
		zone := timePart[idx:]
		timePart = timePart[:idx]
		if zone != "Z" {
			sign := int64(1)
			if zone[0] == '-' {
				sign = -1
			}
			zp := strings.Split(zone[1:], ":")
			mult := []int64{3600, 60, 1}
			if len(zp) > 3 {
				return 0, fmt.Errorf("timestamptz zone %q", zone)
			}
			for i, p := range zp {
				v, err := strconv.ParseInt(p, 10, 64)
				if err != nil || len(p) != 2 {
					return 0, fmt.Errorf("timestamptz zone %q", zone)
				}
				offSec += v * mult[i]
			}
			offSec *= sign
		}
	} else if strings.ContainsAny(timePart, "+-Z") {
		return 0, fmt.Errorf("timestamp text %q carries a zone", orig)
	}
	frac := int64(0)
	if dot := strings.IndexByte(timePart, '.'); dot >= 0 {
		fs := timePart[dot+1:]
		timePart = timePart[:dot]
		if len(fs) == 0 || len(fs) > 9 {
			return 0, fmt.Errorf("timestamp text %q", orig)
		}
		for len(fs) < 9 {
			fs += "0"
		}
		ns, err := strconv.ParseInt(fs, 10, 64)
		if err != nil || ns%1000 != 0 {
			return 0, fmt.Errorf("timestamp text %q: sub-microsecond or bad fraction", orig)
		}
		frac = ns / 1000
	}
	hp := strings.Split(timePart, ":")
	if len(hp) != 3 {
		return 0, fmt.Errorf("timestamp text %q", orig)
	}
	var hms [3]int64
	for i, p := range hp {
		v, err := strconv.ParseInt(p, 10, 64)
		if err != nil || len(p) != 2 {
			return 0, fmt.Errorf("timestamp text %q", orig)
		}
		hms[i] = v
	}
	if hms[0] > 24 || hms[1] > 59 || hms[2] > 60 {
		return 0, fmt.Errorf("timestamp text %q", orig)
	}
	sec := days*86400 + hms[0]*3600 + hms[1]*60 + hms[2] - offSec
	return sec*1000000 + frac, nil
}

// Encode encodes a canonical non-NULL value for a type in a format (used for
// Bind parameters and binary COPY streams sent by the simulated client).
func Encode(oid uint32, format int16, v Value) ([]byte, error) {
	if v.Null {
		return nil, fmt.Errorf("Encode called with NULL")
	}
	if KindOf(oid) != v.Kind {
		return nil, fmt.Errorf("value kind %s does not fit oid %d", v.Kind, oid)
	}
	if format == 1 {
		switch oid {
		case OIDBool:
			return []byte{byte(v.I)}, nil
		case OIDInt2:
			return binary.BigEndian.AppendUint16(nil, uint16(v.I)), nil
		case OIDInt4, OIDOid, OIDDate:
			return binary.BigEndian.AppendUint32(nil, uint32(v.I)), nil
		case OIDInt8, OIDTimestamp, OIDTimestamptz:
			return binary.BigEndian.AppendUint64(nil, uint64(v.I)), nil
		case OIDFloat4:
			return binary.BigEndian.AppendUint32(nil, uint32(v.F)), nil
		case OIDFloat8:
			return binary.BigEndian.AppendUint64(nil, v.F), nil
		case OIDText, OIDVarchar, OIDName, OIDJSON, OIDBPChar:
			return []byte(v.S), nil
		case OIDJSONB:
			return append([]byte{1}, v.S...), nil
		case OIDBytea, OIDUUID:
			return append([]byte{}, v.B...), nil
		}
		return nil, fmt.Errorf("oid %d not covered", oid)
	}
	switch oid {
	case OIDBool:
		if v.I != 0 {
			return []byte("t"), nil
		}
		return []byte("f"), nil
	case OIDInt2, OIDInt4, OIDInt8, OIDOid:
		return []byte(strconv.FormatInt(v.I, 10)), nil
	case OIDFloat4:
		return []byte(fmtFloat(float64(math.Float32frombits(uint32(v.F))), 32)), nil
	case OIDFloat8:
		return []byte(fmtFloat(math.Float64frombits(v.F), 64)), nil
	case OIDText, OIDVarchar, OIDName, OIDJSON, OIDBPChar, OIDJSONB:
		return []byte(v.S), nil
	case OIDBytea:
		return []byte(`\x` + hex.EncodeToString(v.B)), nil
	case OIDUUID:
		h := hex.EncodeToString(v.B)
		return []byte(h[0:8] + "-" + h[8:12] + "-" + h[12:16] + "-" + h[16:20] + "-" + h[20:]), nil
	}
	return nil, fmt.Errorf("text encoding of oid %d not covered", oid)
}

func fmtFloat(f float64, bits int) string {
	switch {
	case f != f:
		return "NaN"
	case math.IsInf(f, 1):
		return "Infinity"
	case math.IsInf(f, -1):
		return "-Infinity"
	}
	return strconv.FormatFloat(f, 'g', -1, bits)
}

// CopySignature is the 11-byte binary COPY signature.
var CopySignature = []byte("PGCOPY\n\377\r\n\000")

// EncodeBinaryCopy encodes rows (nil element = NULL) as a binary COPY stream:
// signature, flags, header-extension length, tuples and (optionally) trailer.
func EncodeBinaryCopy(rows [][][]byte, trailer bool) []byte {
	return EncodeBinaryCopyExt(rows, trailer, nil)
}

// EncodeBinaryCopyExt is EncodeBinaryCopy with a header extension area (which
// readers must skip).
func EncodeBinaryCopyExt(rows [][][]byte, trailer bool, ext []byte) []byte {
	out := append([]byte{}, CopySignature...)
	out = binary.BigEndian.AppendUint32(out, 0)
	out = binary.BigEndian.AppendUint32(out, uint32(len(ext)))
	out = append(out, ext...)
	for _, r := range rows {
		out = binary.BigEndian.AppendUint16(out, uint16(len(r)))
		for _, f := range r {
			if f == nil {
				out = binary.BigEndian.AppendUint32(out, 0xFFFFFFFF)
				continue
			}
			out = binary.BigEndian.AppendUint32(out, uint32(len(f)))
			out = append(out, f...)
		}
	}
	if trailer {
		out = binary.BigEndian.AppendUint16(out, 0xFFFF)
	}
	return out
}

// Package pgwire is an independent implementation of the parts of the
// PostgreSQL v3 frontend/backend protocol the verification oracles need. It is
// written against the protocol documentation and imports nothing from the
// library under test, pgx or lib/pq.
package pgwire

import (
	"encoding/binary"
	"fmt"
)

// ColDesc is one field description of a RowDescription.
type ColDesc struct {
	Name    string
	Table   uint32
	AttrNo  int16
	OID     uint32
	Width   int16
	TypeMod int32
	Format  int16
}

// Msg is one parsed backend message.
type Msg struct {
	Type byte
	Off  int // offset of the type byte in the stream
	Body []byte

	Fields     map[byte]string // ErrorResponse / NoticeResponse
	FieldOrder []byte
	Cols       []ColDesc // RowDescription
	Row        [][]byte  // DataRow; nil element = NULL
	Tag        string    // CommandComplete
	Status     byte      // ReadyForQuery
	AuthCode   int32     // Authentication
	Name       string    // ParameterStatus
	Value      string    // ParameterStatus
	OIDs       []uint32  // ParameterDescription
	CopyFormat byte      // Copy*Response
	CopyCols   []int16   // Copy*Response
}

// GrammarError describes why a byte stream is not a concatenation of
// well-formed backend messages.
type GrammarError struct {
	Off  int
	Type byte
	Why  string
	// Trunc: the stream ends inside this message (everything before it parsed)
	Trunc bool
}

func (e *GrammarError) Error() string {
	return fmt.Sprintf("offset %d type %q: %s", e.Off, e.Type, e.Why)
}

type cursor struct {
	b []byte
	p int
}

func (c *cursor) left() int { return len(c.b) - c.p }
func (c *cursor) u8() (byte, bool) {
	if c.left() < 1 {
		return 0, false
	}
	v := c.b[c.p]
	c.p++
	return v, true
}
func (c *cursor) i16() (int16, bool) {
	if c.left() < 2 {
		return 0, false
	}
	v := int16(binary.BigEndian.Uint16(c.b[c.p:]))
	c.p += 2
	return v, true
}
func (c *cursor) i32() (int32, bool) {
	if c.left() < 4 {
		return 0, false
	}
	v := int32(binary.BigEndian.Uint32(c.b[c.p:]))
	c.p += 4
	return v, true
}
func (c *cursor) cstr() (string, bool) {
	for i := c.p; i < len(c.b); i++ {
		if c.b[i] == 0 {
			s := string(c.b[c.p:i])
			c.p = i + 1
			return s, true
		}
	}
	return "", false
}
func (c *cursor) bytes(n int) ([]byte, bool) {
	if n < 0 || c.left() < n {
		return nil, false
	}
	v := c.b[c.p : c.p+n]
	c.p += n
	return v, true
}

// ParseStream parses b as a concatenation of complete backend messages. It
// returns the messages parsed before the first problem and a *GrammarError (or
// nil when the whole stream parses with zero bytes left over).
func ParseStream(b []byte) ([]Msg, error) {
	var out []Msg
	p := 0
	for p < len(b) {
		t := b[p]
		if len(b)-p < 5 {
			return out, &GrammarError{p, t, fmt.Sprintf("truncated header: %d byte(s) left", len(b)-p), true}
		}
		l := int64(binary.BigEndian.Uint32(b[p+1:]))
		if l < 4 {
			return out, &GrammarError{Off: p, Type: t, Why: fmt.Sprintf("declared length %d < 4", l)}
		}
		if int64(len(b)-p-1) < l {
			return out, &GrammarError{p, t, fmt.Sprintf("declared length %d but only %d byte(s) follow", l, len(b)-p-1), true}
		}
		body := b[p+5 : p+1+int(l)]
		m := Msg{Type: t, Off: p, Body: body}
		if why := parseBody(&m); why != "" {
			return out, &GrammarError{Off: p, Type: t, Why: why}
		}
		out = append(out, m)
		p += 1 + int(l)
	}
	return out, nil
}

func isDecimal(s string) bool {
	if s == "" {
		return false
	}
	for i := 0; i < len(s); i++ {
		if s[i] < '0' || s[i] > '9' {
			return false
		}
	}
	return true
}

func parseBody(m *Msg) string {
	c := &cursor{b: m.Body}
	exact := func() string {
		if c.left() != 0 {
			return fmt.Sprintf("%d surplus byte(s) after the body grammar", c.left())
		}
		return ""
	}
	switch m.Type {
	case '1', '2', '3', 'n', 'I', 's', 'c':
		return exact()
	case 'R':
		code, ok := c.i32()
		if !ok {
			return "Authentication: missing code"
		}
		m.AuthCode = code
		switch code {
		case 0, 2, 3, 6, 7, 9:
			return exact()
		case 5:
			if _, ok := c.bytes(4); !ok {
				return "AuthenticationMD5Password: missing salt"
			}
			return exact()
		case 8, 11, 12:
			c.p = len(c.b)
			return ""
		case 10:
			n := 0
			for {
				s, ok := c.cstr()
				if !ok {
					return "AuthenticationSASL: unterminated mechanism list"
				}
				if s == "" {
					break
				}
				n++
			}
			if n == 0 {
				return "AuthenticationSASL: empty mechanism list"
			}
			return exact()
		}
		return fmt.Sprintf("Authentication: unknown code %d", code)
	case 'K':
		if _, ok := c.bytes(8); !ok {
			return "BackendKeyData: short"
		}
		return exact()
	case 'C':
		s, ok := c.cstr()
		if !ok {
			return "CommandComplete: tag not NUL-terminated"
		}
		m.Tag = s
		return exact()
	case 'D':
		n, ok := c.i16()
		if !ok {
			return "DataRow: missing field count"
		}
		if n < 0 {
			return fmt.Sprintf("DataRow: negative field count %d", n)
		}
		m.Row = make([][]byte, n)
		for i := 0; i < int(n); i++ {
			l, ok := c.i32()
			if !ok {
				return fmt.Sprintf("DataRow: field %d: missing length", i)
			}
			if l == -1 {
				continue
			}
			if l < 0 {
				return fmt.Sprintf("DataRow: field %d: negative length %d", i, l)
			}
			v, ok := c.bytes(int(l))
			if !ok {
				return fmt.Sprintf("DataRow: field %d: length %d exceeds body", i, l)
			}
			if v == nil {
				v = []byte{}
			}
			m.Row[i] = v[:len(v):len(v)]
			if m.Row[i] == nil {
				m.Row[i] = []byte{}
			}
		}
		return exact()
	case 'E', 'N':
		m.Fields = map[byte]string{}
		for {
			code, ok := c.u8()
			if !ok {
				return "ErrorResponse: missing terminator"
			}
			if code == 0 {
				break
			}
			s, ok := c.cstr()
			if !ok {
				return fmt.Sprintf("ErrorResponse: field %q not NUL-terminated", code)
			}
			if _, dup := m.Fields[code]; dup {
				return fmt.Sprintf("ErrorResponse: field %q appears twice", code)
			}
			m.Fields[code] = s
			m.FieldOrder = append(m.FieldOrder, code)
		}
		if why := exact(); why != "" {
			return "ErrorResponse: " + why + " (bytes after the terminator)"
		}
		for _, req := range []byte{'S', 'C', 'M'} {
			if _, ok := m.Fields[req]; !ok {
				return fmt.Sprintf("ErrorResponse: mandatory field %q missing", req)
			}
		}
		if cc := m.Fields['C']; len(cc) != 5 {
			return fmt.Sprintf("ErrorResponse: SQLSTATE %q is not 5 characters", cc)
		}
		for _, num := range []byte{'L', 'P', 'p'} {
			if v, ok := m.Fields[num]; ok && !isDecimal(v) {
				return fmt.Sprintf("ErrorResponse: field %q = %q is not a decimal ASCII integer", num, v)
			}
		}
		return ""
	case 'G', 'H', 'W':
		f, ok := c.u8()
		if !ok {
			return "CopyResponse: missing format"
		}
		if f > 1 {
			return fmt.Sprintf("CopyResponse: overall format %d", f)
		}
		m.CopyFormat = f
		n, ok := c.i16()
		if !ok || n < 0 {
			return "CopyResponse: bad column count"
		}
		for i := 0; i < int(n); i++ {
			fc, ok := c.i16()
			if !ok {
				return fmt.Sprintf("CopyResponse: column %d: missing format code", i)
			}
			if fc != 0 && fc != 1 {
				return fmt.Sprintf("CopyResponse: column %d: format code %d", i, fc)
			}
			m.CopyCols = append(m.CopyCols, fc)
		}
		return exact()
	case 'd':
		return ""
	case 'S':
		k, ok := c.cstr()
		if !ok {
			return "ParameterStatus: name not NUL-terminated"
		}
		v, ok := c.cstr()
		if !ok {
			return "ParameterStatus: value not NUL-terminated"
		}
		m.Name, m.Value = k, v
		return exact()
	case 'T':
		n, ok := c.i16()
		if !ok || n < 0 {
			return "RowDescription: bad field count"
		}
		for i := 0; i < int(n); i++ {
			var d ColDesc
			var ok1, ok2, ok3, ok4, ok5, ok6, ok7 bool
			d.Name, ok1 = c.cstr()
			var tb int32
			tb, ok2 = c.i32()
			d.Table = uint32(tb)
			d.AttrNo, ok3 = c.i16()
			var o int32
			o, ok4 = c.i32()
			d.OID = uint32(o)
			d.Width, ok5 = c.i16()
			d.TypeMod, ok6 = c.i32()
			d.Format, ok7 = c.i16()
			if !(ok1 && ok2 && ok3 && ok4 && ok5 && ok6 && ok7) {
				return fmt.Sprintf("RowDescription: field %d of %d truncated", i, n)
			}
			// (the value of the format code is not part of the framing grammar: a
			// server echoing an inadmissible client-supplied code is judged by the
			// format-rule model of C08, not here)
			m.Cols = append(m.Cols, d)
		}
		return exact()
	case 't':
		n16, ok := c.i16()
		if !ok {
			return "ParameterDescription: bad count"
		}
		// the count is read as unsigned: the protocol allows up to 65535
		// parameters, which do not fit a signed 16-bit integer
		n := int(uint16(n16))
		for i := 0; i < n; i++ {
			o, ok := c.i32()
			if !ok {
				return fmt.Sprintf("ParameterDescription: parameter %d of %d missing", i, n)
			}
			m.OIDs = append(m.OIDs, uint32(o))
		}
		return exact()
	case 'Z':
		s, ok := c.u8()
		if !ok {
			return "ReadyForQuery: missing status"
		}
		if s != 'I' && s != 'T' && s != 'E' {
			return fmt.Sprintf("ReadyForQuery: status %q", s)
		}
		m.Status = s
		return exact()
	case 'A':
		if _, ok := c.i32(); !ok {
			return "NotificationResponse: short"
		}
		if _, ok := c.cstr(); !ok {
			return "NotificationResponse: channel"
		}
		if _, ok := c.cstr(); !ok {
			return "NotificationResponse: payload"
		}
		return exact()
	case 'V':
		l, ok := c.i32()
		if !ok {
			return "FunctionCallResponse: short"
		}
		if l >= 0 {
			if _, ok := c.bytes(int(l)); !ok {
				return "FunctionCallResponse: value"
			}
		} else if l != -1 {
			return "FunctionCallResponse: negative length"
		}
		return exact()
	case 'v':
		if _, ok := c.i32(); !ok {
			return "NegotiateProtocolVersion: short"
		}
		n, ok := c.i32()
		if !ok || n < 0 {
			return "NegotiateProtocolVersion: count"
		}
		for i := 0; i < int(n); i++ {
			if _, ok := c.cstr(); !ok {
				return "NegotiateProtocolVersion: option"
			}
		}
		return exact()
	}
	return "unknown backend message type"
}

// Kinds renders the message type bytes of a parsed stream as a compact string.
func Kinds(msgs []Msg) string {
	b := make([]byte, len(msgs))
	for i := range msgs {
		b[i] = msgs[i].Type
	}
	return string(b)
}

# sourced by every script: offline Go environment, newer toolchain for testing/synctest
export GOFLAGS=-mod=mod GOPROXY=off GOSUMDB=off GOTOOLCHAIN=local
export GO=${GO:-go1.26.8}

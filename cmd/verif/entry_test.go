// Package main is built as a test binary (go test -c) because engine E2 runs
// inside testing/synctest bubbles, which need a *testing.T. TestEntry is the
// only test; it dispatches on the arguments after the test flags.
package main

import (
	"flag"
	"fmt"
	"os"
	"strconv"
	"testing"

	"verif/harness"
)

func argVal(args []string, name, def string) string {
	for i, a := range args {
		if a == name && i+1 < len(args) {
			return args[i+1]
		}
	}
	return def
}

func argHas(args []string, name string) bool {
	for _, a := range args {
		if a == name {
			return true
		}
	}
	return false
}

func seedFromEnv() uint64 {
	if v := os.Getenv("VERIF_SEED"); v != "" {
		if n, err := strconv.ParseUint(v, 10, 64); err == nil {
			return n
		}
		if n, err := strconv.ParseInt(v, 10, 64); err == nil {
			return uint64(n)
		}
	}
	return 1
}

func TestEntry(t *testing.T) {
	args := flag.Args()
	if len(args) == 0 {
		t.Skip("no sub-command")
	}
	root := os.Getenv("VERIF_ROOT")
	if root == "" {
		root = "/verif"
	}
	code := 2
	switch args[0] {
	case "check":
		tier := argVal(args, "--tier", os.Getenv("VERIF_TIER"))
		if tier == "" {
			tier = "quick"
		}
		code = harness.CheckMain(root, args[1], tier, seedFromEnv())
	case "worker":
		p := harness.Registry[argVal(args, "--prop", "")]
		if p == nil {
			fmt.Fprintln(os.Stderr, "worker: unknown property")
			os.Exit(2)
		}
		seed, _ := strconv.ParseUint(argVal(args, "--seed", "1"), 10, 64)
		shard, _ := strconv.Atoi(argVal(args, "--shard", "0"))
		shards, _ := strconv.Atoi(argVal(args, "--shards", "1"))
		secs, _ := strconv.ParseFloat(argVal(args, "--secs", "10"), 64)
		code = harness.WorkerMain(t, p, seed, argVal(args, "--tier", "quick"), shard, shards, secs,
			argVal(args, "--out", "/dev/null"), argVal(args, "--cur", "/dev/null"), argHas(args, "--race"), argHas(args, "--fixed"))
	case "replay":
		code = harness.ReplayMain(t, args[1])
	case "show":
		code = harness.ShowMain(t, args[1])
	case "minimize":
		code = harness.MinimizeMain(t, args[1], args[2])
	case "gen":
		p := harness.Registry[args[1]]
		idx, _ := strconv.ParseUint(args[2], 10, 64)
		c := harness.MakeCase(p, seedFromEnv(), argVal(args, "--tier", "quick"), harness.CaseRef{Index: idx, Fixed: argHas(args, "--fixed")})
		fmt.Println(string(c.JSON()))
		code = 0
	case "selftest":
		code = harness.SelfTestMain(t, root, args[1:])
	case "hash":
		n, _ := strconv.Atoi(args[2])
		code = harness.HashMain(t, harness.Registry[args[1]], seedFromEnv(), "quick", n, len(args) > 3 && args[3] == "race")
	case "israce":
		code = 1
		if p := harness.Registry[args[1]]; p != nil && p.Race {
			code = 0
		}
	case "props":
		for _, id := range harness.PropIDs() {
			fmt.Println(id)
		}
		code = 0
	default:
		fmt.Fprintln(os.Stderr, "unknown sub-command", args[0])
	}
	os.Stdout.Sync()
	os.Exit(code)
}

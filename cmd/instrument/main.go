// Command instrument copies the library under test (/repo's current working
// tree) into a scratch directory and inserts simulator schedule points into the
// copy of its root package:
//
//   - verifYield("@file:line") in front of every statement that performs a
//     synchronisation operation (atomic Load/Store/CompareAndSwap/Swap/Add,
//     WaitGroup Add/Done/Wait, sync.Once Do, close(ch), channel send/receive,
//     select), so that the seeded scheduler can interleave goroutines between any
//     two such operations, not only at the hand-placed hook points;
//
//   - X.Lock() / X.RLock() statements become verifLock(X.TryLock, X.Lock, ...),
//     cooperative acquisition that parks in the simulator instead of blocking in
//     the Go runtime (a goroutine blocked on a sync.Mutex is not "durably
//     blocked" for testing/synctest and would stall the simulation).
//
//   - every `go func() { ... }()` body starts with `defer verifGoTop()`: when a
//     scripted user callback panics on purpose, the panic is allowed to travel
//     through the library's own frames and is caught only at the top of the
//     goroutine, where a real process would have died.
//
// The insertion is a textual splice at AST-derived offsets, so the rest of the
// source (comments, line numbers) is untouched. /repo itself is never modified.
package main

import (
	"fmt"
	"go/ast"
	"go/parser"
	"go/token"
	"io"
	"os"
	"path/filepath"
	"sort"
	"strings"
)

var syncSelectors = map[string]bool{
	"Load": true, "Store": true, "CompareAndSwap": true, "Swap": true,
	"Add": true, "Done": true, "Wait": true, "Do": true, "Broadcast": true, "Signal": true,
}

type splice struct {
	off, end int // replace [off,end) (end==off: pure insertion)
	text     string
}

func exprHasSync(e ast.Node) bool {
	if e == nil {
		return false
	}
	found := false
	ast.Inspect(e, func(n ast.Node) bool {
		if found {
			return false
		}
		switch t := n.(type) {
		case *ast.FuncLit:
			return false
		case *ast.CallExpr:
			if id, ok := t.Fun.(*ast.Ident); ok && id.Name == "close" && len(t.Args) == 1 {
				found = true
			}
			if sel, ok := t.Fun.(*ast.SelectorExpr); ok && syncSelectors[sel.Sel.Name] {
				// Add with exactly one argument (atomic / WaitGroup), others nullary
				// or as named; cheap syntactic over-approximation is harmless.
				found = true
			}
		case *ast.UnaryExpr:
			if t.Op == token.ARROW {
				found = true
			}
		}
		return true
	})
	return found
}

// stmtHead reports whether the part of the statement evaluated when control
// reaches it (not its nested blocks) performs a synchronisation operation.
func stmtHead(s ast.Stmt) bool {
	switch t := s.(type) {
	case *ast.ExprStmt:
		return exprHasSync(t.X)
	case *ast.AssignStmt:
		for _, r := range t.Rhs {
			if exprHasSync(r) {
				return true
			}
		}
	case *ast.ReturnStmt:
		for _, r := range t.Results {
			if exprHasSync(r) {
				return true
			}
		}
	case *ast.IfStmt:
		return (t.Init != nil && stmtHead(t.Init)) || exprHasSync(t.Cond)
	case *ast.ForStmt:
		return (t.Init != nil && stmtHead(t.Init)) || (t.Cond != nil && exprHasSync(t.Cond))
	case *ast.SwitchStmt:
		return (t.Init != nil && stmtHead(t.Init)) || (t.Tag != nil && exprHasSync(t.Tag))
	case *ast.SendStmt, *ast.SelectStmt:
		return true
	case *ast.RangeStmt:
		return exprHasSync(t.X)
	case *ast.DeclStmt:
		return exprHasSync(t.Decl)
	case *ast.LabeledStmt:
		return stmtHead(t.Stmt)
	}
	return false
}

func lockCall(s ast.Stmt) (recv ast.Expr, name string, call *ast.CallExpr) {
	es, ok := s.(*ast.ExprStmt)
	if !ok {
		return nil, "", nil
	}
	c, ok := es.X.(*ast.CallExpr)
	if !ok || len(c.Args) != 0 {
		return nil, "", nil
	}
	sel, ok := c.Fun.(*ast.SelectorExpr)
	if !ok || (sel.Sel.Name != "Lock" && sel.Sel.Name != "RLock") {
		return nil, "", nil
	}
	return sel.X, sel.Sel.Name, c
}

// addressable: a plain identifier or a chain of field selections on one.
func addressable(e ast.Expr) bool {
	switch x := e.(type) {
	case *ast.Ident:
		return true
	case *ast.SelectorExpr:
		return addressable(x.X)
	case *ast.ParenExpr:
		return addressable(x.X)
	}
	return false
}

func instrumentFile(path, base string) ([]byte, int, error) {
	src, err := os.ReadFile(path)
	if err != nil {
		return nil, 0, err
	}
	fset := token.NewFileSet()
	f, err := parser.ParseFile(fset, path, src, 0)
	if err != nil {
		return nil, 0, err
	}
	var sp []splice
	off := func(p token.Pos) int { return fset.Position(p).Offset }
	doList := func(list []ast.Stmt) {
		for _, s := range list {
			line := fset.Position(s.Pos()).Line
			label := fmt.Sprintf("@%s:%d", base, line)
			if recv, name, call := lockCall(s); call != nil {
				r := string(src[off(recv.Pos()):off(recv.End())])
				try := "TryLock"
				if name == "RLock" {
					try = "TryRLock"
				}
				// the mutex's identity (its address) lets the simulator give
				// sync.RWMutex its writer preference: once a writer waits, new readers
				// wait too - which is what makes a recursive read lock deadlock
				id := "nil"
				if addressable(recv) {
					id = "&" + r
				}
				wrap := "verifTryW"
				if name == "RLock" {
					wrap = "verifTryR"
				}
				sp = append(sp, splice{off(call.Pos()), off(call.End()),
					fmt.Sprintf("verifLock(%s(%s, %s.%s), %s.%s, %q)", wrap, id, r, try, r, name, label)})
				continue
			}
			if stmtHead(s) {
				sp = append(sp, splice{off(s.Pos()), off(s.Pos()), fmt.Sprintf("verifYield(%q); ", label)})
			}
		}
	}
	ast.Inspect(f, func(n ast.Node) bool {
		switch t := n.(type) {
		case *ast.GoStmt:
			// `go func() { ... }()`: the new goroutine's outermost deferred call is
			// the simulator's (see verifGoTop in the generated file)
			if fl, ok := t.Call.Fun.(*ast.FuncLit); ok && fl.Body != nil {
				sp = append(sp, splice{off(fl.Body.Lbrace) + 1, off(fl.Body.Lbrace) + 1, " defer verifGoTop(); "})
			}
		case *ast.BlockStmt:
			doList(t.List)
		case *ast.CaseClause:
			doList(t.Body)
		case *ast.CommClause:
			doList(t.Body)
		}
		return true
	})
	sort.Slice(sp, func(i, j int) bool { return sp[i].off > sp[j].off })
	out := append([]byte{}, src...)
	for _, s := range sp {
		out = append(out[:s.off], append([]byte(s.text), out[s.end:]...)...)
	}
	return out, len(sp), nil
}

const autoFile = `//go:build verif

package wire

// VerifLock is the simulator's cooperative mutex acquisition hook (see
// /verif/cmd/instrument). This file exists only in instrumented scratch copies.
var VerifLock func(try func() bool, lock func(), point string)

func verifLock(try func() bool, lock func(), point string) {
	if fn := VerifLock; fn != nil {
		fn(try, lock, point)
		return
	}
	lock()
}

// VerifPending keeps, per mutex, the number of writers that are waiting for it
// (op +1 / -1; op 0 asks whether any is). The simulator acquires mutexes with
// TryLock / TryRLock, which know nothing of waiting writers; sync.RWMutex,
// however, makes new readers wait behind a waiting writer.
var VerifPending func(id any, op int) bool

// verifTryR: a reader does not get in while a writer waits for the same mutex.
func verifTryR(id any, try func() bool) func() bool {
	return func() bool {
		if fn := VerifPending; fn != nil && id != nil && fn(id, 0) {
			return false
		}
		return try()
	}
}

// verifTryW: a writer that does not get in is a waiting writer until it does.
func verifTryW(id any, try func() bool) func() bool {
	waiting := false
	return func() bool {
		ok := try()
		if fn := VerifPending; fn != nil && id != nil {
			if ok && waiting {
				fn(id, -1)
				waiting = false
			} else if !ok && !waiting {
				fn(id, +1)
				waiting = true
			}
		}
		return ok
	}
}

// VerifGoTop is consulted by the outermost deferred call of every goroutine the
// library starts with a function literal. Called with nil it reports whether a
// panic the simulator itself injected (a user callback that panics) is in
// flight; only then is the panic value recovered and handed to it. Returning
// true means: this was the injected panic, it has reached the top of the
// goroutine - in a real process that is where the program would have died -
// and the simulated run records that and goes on. Every other panic is
// untouched (recover is not even called).
var VerifGoTop func(r any) bool

func verifGoTop() {
	fn := VerifGoTop
	if fn == nil || !fn(nil) {
		return
	}
	if r := recover(); r != nil {
		if !fn(r) {
			panic(r)
		}
	}
}
`

func copyFile(dst, src string) error {
	in, err := os.Open(src)
	if err != nil {
		return err
	}
	defer in.Close()
	if err := os.MkdirAll(filepath.Dir(dst), 0o755); err != nil {
		return err
	}
	out, err := os.Create(dst)
	if err != nil {
		return err
	}
	if _, err := io.Copy(out, in); err != nil {
		out.Close()
		return err
	}
	return out.Close()
}

func main() {
	if len(os.Args) != 3 {
		fmt.Fprintln(os.Stderr, "usage: instrument <repo> <dest>")
		os.Exit(2)
	}
	repo, dest := os.Args[1], os.Args[2]
	if err := os.RemoveAll(dest); err != nil {
		fmt.Fprintln(os.Stderr, err)
		os.Exit(2)
	}
	total := 0
	err := filepath.Walk(repo, func(p string, info os.FileInfo, err error) error {
		if err != nil {
			return err
		}
		rel, _ := filepath.Rel(repo, p)
		if info.IsDir() {
			switch rel {
			case ".git", "examples", "tools", ".github":
				return filepath.SkipDir
			}
			return nil
		}
		if rel != "go.mod" && rel != "go.sum" && !strings.HasSuffix(rel, ".go") {
			return nil
		}
		if strings.HasSuffix(rel, "_test.go") {
			return nil
		}
		dst := filepath.Join(dest, rel)
		inRoot := !strings.Contains(rel, string(filepath.Separator))
		if inRoot && strings.HasSuffix(rel, ".go") && !strings.HasPrefix(rel, "verif_") {
			out, n, err := instrumentFile(p, rel)
			if err != nil {
				return fmt.Errorf("%s: %w", rel, err)
			}
			total += n
			if err := os.MkdirAll(filepath.Dir(dst), 0o755); err != nil {
				return err
			}
			return os.WriteFile(dst, out, 0o644)
		}
		return copyFile(dst, p)
	})
	if err == nil {
		err = os.WriteFile(filepath.Join(dest, "verif_auto.go"), []byte(autoFile), 0o644)
	}
	if err != nil {
		fmt.Fprintln(os.Stderr, "instrument:", err)
		os.Exit(2)
	}
	fmt.Printf("instrumented copy at %s: %d schedule points inserted\n", dest, total)
}

module verif

go 1.26

require (
	github.com/jackc/pgx/v5 v5.4.3
	github.com/jeroenrinzema/psql-wire v0.0.0
	github.com/lib/pq v1.10.9
)

replace github.com/jeroenrinzema/psql-wire => /repo

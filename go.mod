module verif

go 1.26

require github.com/jeroenrinzema/psql-wire v0.0.0

require (
	github.com/jackc/pgx/v5 v5.4.3 // indirect
	github.com/lib/pq v1.10.9 // indirect
)

replace github.com/jeroenrinzema/psql-wire => /repo

#!/usr/bin/env python3
"""usage: tools/store_mut.py <wave> <<'JSON' ... (list of entries on stdin)
Each entry: {"id": "C05", "n": 1, "name": "C05-...", "breaks": "...", "needs": "...",
 "detection": "...", "check": "C05", "missed": bool, "strengthening": "..."}
Copies /tmp/mut/<id>/deliver/change<n>.diff and demo<n>_test.go into seeded/<name>/."""
import json, os, shutil, sys
wave = int(sys.argv[1])
root = os.path.dirname(os.path.dirname(os.path.abspath(__file__)))
for e in json.load(sys.stdin):
    d = os.path.join(root, "seeded", e["name"])
    os.makedirs(d, exist_ok=True)
    src = f"/tmp/mut/{e['id']}/deliver"
    shutil.copy(f"{src}/change{e['n']}.diff", f"{d}/patch.diff")
    shutil.copy(f"{src}/demo{e['n']}_test.go", f"{d}/demo_test.go.txt")
    meta = {
        "property": e["id"],
        "origin": "independent sub-agent given only the property text and a scratch worktree",
        "breaks": e["breaks"],
        "needs_to_manifest": e["needs"],
        "confirmed_by": "tools/verify_mut.sh in a fresh scratch worktree: demo passes without the change; with it go build ok, go test ./... passes, demo fails",
        "checks_run": "tools/try_patch.sh <patch> 20-25 <check>  (scratch worktree via VERIF_REPO; /repo untouched)",
        "detection": e["detection"],
        "check": e.get("check", e["id"]),
        "wave": wave,
        "initially_missed": bool(e.get("missed")),
    }
    if e.get("strengthening"):
        meta["strengthening"] = e["strengthening"]
    json.dump(meta, open(f"{d}/meta.json", "w"), indent=1)
    print("stored", e["name"])

#!/bin/bash
# Re-runs every stored seeded change against the check of its property
# (quick tier, short budget) and reports which are detected. /repo is untouched.
cd "$(dirname "$(readlink -f "$0")")/.." || exit 2
secs=${1:-15}
# optional further arguments: only seeded changes whose directory name starts with one of them (e.g. C01 C12)
shift
miss=0; tot=0
for d in seeded/*/; do
  name=$(basename "$d")
  if [ $# -gt 0 ]; then
    keep=0; for pre in "$@"; do case "$name" in "$pre"*) keep=1;; esac; done
    [ $keep -eq 1 ] || continue
  fi
  prop=$(python3 -c "import json;print(json.load(open('$d/meta.json'))['property'])")
  extra=$(python3 -c "import json;print(json.load(open('$d/meta.json')).get('check',''))")
  chk=${extra:-$prop}
  out=$(./tools/try_patch.sh "$d/patch.diff" "$secs" $chk 2>&1 | grep -a -m1 '^\[C[0-9][0-9]\] exit=')
  tot=$((tot+1))
  case "$out" in *"exit=1"*) echo "DETECTED $name :: ${out:0:120}";; *) echo "MISSED   $name :: ${out:0:160}"; miss=$((miss+1));; esac
done
echo "seeded regression: $((tot-miss))/$tot detected"

#!/bin/bash
# usage: tools/verify_mut.sh <deliver-dir> <n>   (n = 1 or 2)
# Confirms, in a fresh scratch worktree: demo passes without the change; with
# the change: builds, suite passes, demo fails.
d=$1; n=$2
export GOFLAGS=-mod=mod GOPROXY=off GOSUMDB=off
wt=/tmp/vm_repo.$$
git -C /repo worktree add -q --detach "$wt" HEAD || exit 2
trap 'git -C /repo worktree remove --force "$wt" 2>/dev/null' EXIT
cp "$d/demo${n}_test.go" "$wt/mut_demo${n}_test.go"
tests=$(grep -o '^func Test[A-Za-z0-9_]*' "$d/demo${n}_test.go" | sed 's/func //' | paste -sd'|')
cd "$wt"
echo "demo tests: $tests"
extra=""
grep -q "race" "$d/NOTES.md" 2>/dev/null && grep -qi "\-race" "$d/NOTES.md" && extra="(notes mention -race)"
go test -count=1 -run "^($tests)\$" . > /tmp/vm.out 2>&1; echo "demo WITHOUT change: exit=$? $extra"; tail -3 /tmp/vm.out | cut -c1-200
git apply "$d/change${n}.diff" || { echo "APPLY FAILED"; exit 1; }
go build ./... && echo "build ok"
mv mut_demo${n}_test.go /tmp/mut_demo_hold.$$
for i in 1 2; do go test -count=1 ./... 2>&1 | grep -v "no test files" | tail -2; done
mv /tmp/mut_demo_hold.$$ mut_demo${n}_test.go
go test -count=1 -run "^($tests)\$" . > /tmp/vm.out 2>&1; echo "demo WITH change: exit=$?"; grep -m3 -E "^\s+.*(Error|expected|got|want|FAIL)|^--- FAIL|panic" /tmp/vm.out | cut -c1-220

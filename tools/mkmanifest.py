#!/usr/bin/env python3
"""Regenerates /verif/MANIFEST.json from the table below (keeps it valid at all times)."""
import json, subprocess, os
ROOT = os.path.dirname(os.path.dirname(os.path.abspath(__file__)))

E1 = "E1 inline engine (harness/runtime.go RunInline)"
E2 = "E2 seeded scheduler (harness/kernel.go, RunScheduled)"
NOTE = ("Trusted: Go runtime + testing/synctest of go1.26.8, pgx pgtype codecs for the encodable/unencodable classification self-check, "
        "the harness's own grammar/codecs/reference model (package pgwire, harness/model.go). Sampling, not proof.")

CHECKS = {
 "C01": ("exploration", E1, "deterministic simulation: seeded credential/continuation histories over the simulated transport, event-log monitor (verdict => phase)",
         "Every generated non-accepting authentication attempt (validator reject/fail, malformed or foreign message in place of the password, EOF), with any pipelined continuation, segmentation and a failing write, must end without AuthenticationOk, session output or any callback; exploration is the right level because the space of continuations is unbounded and the defect class (control flow falling through) shows on almost every rejected run.", "3 C01"),
 "C02": ("exploration", E1, "deterministic simulation: seeded handler programs and client histories with injected failing/transient writes, strict independent backend-message grammar over the wire tap (also a monitor in every other check)",
         "The accepted byte stream of every run must parse exactly under an independent strict grammar; exploration over handler programs x client histories x write faults.", "3 C02"),
 "C03": ("exploration", E1, "deterministic simulation: the same client bytes under many seeded segmentations (differential of the real code against itself), metamorphic surplus-byte removal, accessor sequences over the segmenting reader against an independent cursor",
         "Transcript, output length and callback trace must not depend on how the byte stream is cut into reads, nor on grammar-external bytes inside a message's declared length; accessors never read beyond the current message.", "3 C03"),
 "C04": ("fault_enumeration", E1, "deterministic simulation with exhaustive transport-fault placement: every read index, input byte offset and write index of each corpus session, plus seeded hostile inputs; child-process isolation attributes crashes to the recorded case",
         "For a fixed corpus of sessions covering every phase each position at which the transport can start failing is enumerated (not sampled); hostile byte strings, field-level mutations and helper abuse are sampled. Oracles: process survival, bounded termination, bystander service, allocation bound, prefix property under faults.", "3 C04"),
 "C05": ("exploration", E1, "deterministic simulation: seeded simple-query histories and handler programs, refinement against the executable reference model (cycle + DataWriter state machine)",
         "Each Query's replies and every value the handler observes (Written(), errors of Row/Complete/... ) are compared message by message with the reference model.", "3 C05"),
 "C06": ("exploration", E1, "deterministic simulation: seeded extended-protocol histories with scripted failures, refinement against the reference model with discard-until-Sync, quiescence snapshots for 'delivered without waiting'",
         "Designated replies, one ReadyForQuery per Sync, exactly one ErrorResponse then silence until Sync, unknown names as errors; judged per message and per quiescence point.", "3 C06"),
 "C07": ("exploration", E1 + " + " + E2 + " (-race shard)", "deterministic simulation: seeded name-reuse histories with unique definitions, per-connection namespace model; seeded interleavings of connections sharing names, with the HB-transparent race oracle on the concurrent sets",
         "Each Execute/Describe must be attributable to the definition current at Bind time; Close makes names unresolvable; concurrent connections using the same names must each equal their own model run.", "3 C07"),
 "C08": ("exploration", E1, "deterministic simulation: seeded Bind shapes x traffic between Bind and Execute x segmentation, reference model of the format-code rule, byte equality and independent decoders on what the statement function observes",
         "Parameters are zero-copy windows into the connection's read buffer created at Bind and consumed at a later Execute, so the guarantee depends on the message history in between; every observed count/value/format/Scan result and the portal's RowDescription/DataRow formats are compared with the model.", "3 C08"),
 "C09": ("exploration", E1, "deterministic simulation: seeded typed rows in many Go representations and NULL spellings, both formats, varying encode history per connection; every DataRow decoded by independent codecs",
         "Each accepted row must arrive as one DataRow whose fields decode (independent text and binary decoders) to the written values, NULL as length -1; the encode path memoises plans per connection, so the order in which Go types were encoded earlier is part of the explored space.", "3 C09"),
 "C10": ("exploration", E1, "deterministic simulation: enumerated boundary grid (limit x type x size x position) plus seeded sizes up to 2^32-5 with synthetic bodies that spell valid messages, size-rule model, allocation counters, segmentation of the skipped body",
         "Boundary exactness (L vs L+1), full skipping in several chunks, exactly one 54000 error, recovery of the next message, connection end during startup/authentication, sub-minimum lengths; the boundary grid is enumerated completely, the rest is seeded.", "3 C10"),
 "C11": ("exploration", E2 + " (real crypto/tls client task) + " + E1, "deterministic simulation: a real crypto/tls client goroutine and the server goroutine are tasks of the seeded scheduler over a tapped simulated duplex connection; wire-tap record framing + canary, TLS-versus-plaintext differential",
         "'S' iff certificates, everything after it is TLS records with no canary on the wire, the decrypted session and the callback trace equal the plaintext run, stuffed plaintext / odd negotiations never reach a callback, 'N' continues in plaintext.", "3 C11"),
 "C12": ("exploration", E1 + " + " + E2 + " (-race shard)", "deterministic simulation: seeded startup packets and configurations, multiset model of the startup reply, context read-back in callbacks, map immutability; concurrent users under seeded schedules with the HB-transparent race oracle",
         "Client parameters seen in callbacks equal the packet's pairs, the startup reply announces exactly the configured set once, the user's map is unchanged and never raced on, cancel packets get no reply and no callback.", "3 C12"),
 "C14": ("exploration", E1, "deterministic simulation where the chunking of the COPY stream into CopyData messages is the schedule: exhaustive 2- and 3-piece splits of short streams, seeded splits and corruptions, independent binary-COPY encoder, row equality",
         "Rows returned by the library's row reader must equal the rows encoded by an independent encoder for every split of the stream; trailer/CopyDone are end-of-stream; corrupt rows are errors, never rows or crashes.", "3 C14"),
 "C18": ("exploration", E1, "deterministic simulation: callbacks retain zero-copy data across seeded later traffic sized around the 4 KiB allocation granule and the limit; retained-vs-private-copy comparison, white-box buffer-window probes",
         "Every retained query text, parameter value, client parameter and password must keep its content after any later message history; probes show both buffer-reuse branches were reached.", "3 C18"),
 "C15": ("exploration", E2 + " (-race shard)", "deterministic simulation: solo-versus-concurrent differential of the real code against itself under seeded interleavings, plus the Go race detector made schedule-exact by an HB-transparent scheduler",
         "Each connection's transcript and callback trace under every explored interleaving must equal its solo run; the race oracle sees only the library's own synchronisation, so an unsynchronised shared access is reported deterministically with a replayable schedule.", "3 C15"),
 "C16": ("exploration", E2 + " (hooks + spliced schedule points, -race shard)", "deterministic simulation: seeded and hold-until-plan interleavings of Close callers with connections in every state, event-order monitor over global sequence numbers, deadlock detection, panic capture",
         "No Close-caller panic, no handler interval straddling a Close return, no handler start after Close returned, every Close returns, Serve returns nil; interleavings are steered through every synchronisation operation of Close and command admission.", "3 C16"),
 "C19": ("exploration", E1, "deterministic simulation: seeded middleware chains, failure positions, terminate hooks and command histories; event-order monitor plus context inspection inside every callback",
         "Order and once-only execution of middlewares, context propagation into every parser/statement call, cancellation of per-command contexts, failing middleware ends the connection, Terminate hook exactly once.", "3 C19"),
 "C13": ("exploration", E1, "deterministic simulation: seeded COPY-in sub-protocol histories and handler read plans, COPY model + exactly-once abort cycle count",
         "Payloads in order and byte-exact, Flush/Sync ignored, CopyDone = EOF, CopyFail/foreign message = error, exactly one ErrorResponse and ReadyForQuery for an aborted cycle, stray COPY messages ignored.", "3 C13"),
}

NA = {
 "C17": "pure function of the error value (Flatten/ErrorCode): no schedule, clock, fault, history or shared state for a simulator to sample; input generation alone would be property-based testing under another name (malformed ErrorResponses are still caught by the C02 grammar monitor)",
 "C20": "ParseParameters is a pure function string -> []oid with no I/O, state or concurrency; nothing for deterministic simulation to decide (its crash-freedom on client text is exercised inside C04, its Describe clause inside C08)",
}
NOT_BUILT = "check not built yet in this session (in progress)"

def main():
    props = [json.loads(l)["id"] for l in open(os.path.join(ROOT, "properties.jsonl"))]
    hooks = subprocess.run(["git", "-C", "/repo", "log", "--format=%h %s"], capture_output=True, text=True).stdout.splitlines()
    hook_commits = [l.split()[0] for l in hooks if l.split(" ", 1)[1].startswith("verif:")]
    race = []
    checks = []
    for pid in props:
        if pid not in CHECKS:
            continue
        level, engine, tech, text, ref = CHECKS[pid]
        checks.append({
            "property_id": pid,
            "quick_cmd": f"./verif check {pid} --tier quick",
            "thorough_cmd": f"./verif check {pid} --tier thorough",
            "evidence_file": f"/verif/evidence/{pid}.json",
            "replay_cmd_template": "./verif replay {path}",
            "engine": engine,
            "level_claimed": {"category": level, "text": text, "design_ref": "DESIGN.md section " + ref},
            "level_note": NOTE,
            "technique": tech,
        })
    na = []
    for pid in props:
        if pid in CHECKS:
            continue
        na.append({"property_id": pid, "reason": NA.get(pid, NOT_BUILT)})
    man = {
        "version": 1,
        "setup_cmd": "cd /verif && ./setup.sh",
        "hooks": {
            "guard": "verif (Go build tag)",
            "enable": "every check copies /repo's working tree to /verif/.build/inst/repo, splices schedule points into the copy (cmd/instrument; /repo itself is never modified) and builds the worker with `go test -c -tags verif`; the committed hooks in /repo are verif_on.go/verif_off.go plus verifYield(...) calls in Close and consumeSingleCommand",
            "baseline_off_cmd": "cd /repo && go test -vet=off -count=1 ./...",
            "source_commits": hook_commits,
            "add_only": True,
        },
        "engines": [
            {"name": "E1", "path": "harness/runtime.go", "serves_properties": [p for p in props if p in CHECKS], "kind_free_text": "single logical thread per connection: the client is a script interpreted inside the simulated net.Conn's Read (exact quiescence), byte-level segmentation and transport fault plans, inside a testing/synctest bubble"},
            {"name": "E2", "path": "harness/kernel.go", "serves_properties": [p for p in ("C04","C05","C07","C08","C09","C11","C12","C15","C16","C18","C19") if p in CHECKS], "kind_free_text": "seeded cooperative scheduler over testing/synctest: one goroutine runs between decisions, schedule points at transport ops, callbacks, hand-placed hooks and AST-spliced sync operations; HB-transparent under -race"},
        ],
        "checks": checks,
        "not_applicable": na,
        "notes": "Exit codes of every check: 0 held, 1 VIOLATION (with replay file), 2 harness/build trouble (never a verdict). VERIF_SEED and VERIF_TIER are honoured. known_findings.json lists fixed and open findings.",
    }
    json.dump(man, open(os.path.join(ROOT, "MANIFEST.json"), "w"), indent=1)
    open(os.path.join(ROOT, "race-props.txt"), "w").write("".join(p + "\n" for p in race))

main()

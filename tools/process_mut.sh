#!/bin/bash
# usage: tools/process_mut.sh <prop id> [check ids...]   verifies both deliverables of /tmp/mut/<id>/deliver and runs checks
id=$1; shift; checks=${@:-$id}
for n in 1 2; do
  v=$(tools/verify_mut.sh /tmp/mut/$id/deliver $n 2>&1)
  wo=$(echo "$v" | grep -c "demo WITHOUT change: exit=0"); wi=$(echo "$v" | grep -c "demo WITH change: exit=1"); b=$(echo "$v" | grep -c "build ok"); sf=$(echo "$v" | grep -c "^FAIL\|^--- FAIL: Test[A-Z][a-z]*[^MD]" )
  suite=$(echo "$v" | grep -c "^ok  	github.com/jeroenrinzema/psql-wire	")
  echo "== $id change$n: demo-pass-without=$wo demo-fail-with=$wi build=$b suite-ok-lines=$suite"
  tools/try_patch.sh /tmp/mut/$id/deliver/change$n.diff 20 $checks | grep "^\[" | cut -c1-230
done

#!/bin/bash
# usage: tools/try_patch.sh <patch.diff> <secs> <check ids...>
# Applies a seeded change to a scratch worktree of /repo (never to /repo itself,
# so that background runs that rebuild from /repo are not disturbed), runs the
# named checks against it with a short budget, removes the worktree afterwards.
patch=$(readlink -f "$1"); secs=$2; shift 2
cd "$(dirname "$(readlink -f "$0")")/.." || exit 2
wt=/tmp/tp_repo.$$
git -C /repo worktree add -q --detach "$wt" HEAD || exit 2
trap 'git -C /repo worktree remove --force "$wt" 2>/dev/null' EXIT
git -C "$wt" apply "$patch" || { echo "patch does not apply"; exit 2; }
for id in "$@"; do
  out=$(VERIF_REPO=$wt VERIF_SECS=$secs ./verif check "$id" --tier quick 2>&1); rc=$?
  n=$(echo "$out" | grep -c '^VIOLATION')
  first=$(echo "$out" | grep -m1 '^violation:' | cut -c1-260)
  echo "[$id] exit=$rc violations=$n :: $first"
  if [ $rc -eq 2 ]; then echo "$out" | tail -5 | cut -c1-300; fi
done

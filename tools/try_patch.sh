#!/bin/bash
# usage: tools/try_patch.sh <patch.diff> <secs> <check ids...>
# Applies a seeded change to /repo's working tree, runs the named checks with a
# short budget, and ALWAYS restores /repo afterwards. Prints one line per check.
patch=$1; secs=$2; shift 2
cd /verif || exit 2
if ! git -C /repo diff --quiet; then echo "/repo has local edits; refusing"; exit 2; fi
git -C /repo apply "$patch" || { echo "patch does not apply"; exit 2; }
trap 'git -C /repo checkout -- . ; git -C /repo clean -fdq -- . 2>/dev/null' EXIT
for id in "$@"; do
  out=$(VERIF_SECS=$secs ./verif check "$id" --tier quick 2>&1); rc=$?
  n=$(echo "$out" | grep -c '^VIOLATION')
  first=$(echo "$out" | grep -m1 '^violation:' | cut -c1-260)
  echo "[$id] exit=$rc violations=$n :: $first"
  if [ $rc -eq 2 ]; then echo "$out" | tail -5 | cut -c1-300; fi
done

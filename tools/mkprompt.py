#!/usr/bin/env python3
"""Writes /tmp/mut/<ID>.prompt and /tmp/mut/<ID>.property.json for a seeded-change
sub-agent. The agent gets only the property text and its own scratch worktree
(/tmp/mut/<ID>, created by the caller with `git -C /repo worktree add --detach`);
the 'already taken' list is built from /verif/seeded/*/meta.json so that a new
round does not repeat earlier changes.

usage: tools/mkprompt.py <ID> ["focus sentence for this round"]
"""
import glob
import json
import os
import sys

pid = sys.argv[1]
focus = sys.argv[2] if len(sys.argv) > 2 else ""
root = os.path.dirname(os.path.dirname(os.path.abspath(__file__)))
prop = None
for line in open(os.path.join(root, "properties.jsonl")):
    o = json.loads(line)
    if o.get("id") == pid:
        prop = o
if prop is None:
    sys.exit("unknown property " + pid)
os.makedirs("/tmp/mut", exist_ok=True)
json.dump(prop, open(f"/tmp/mut/{pid}.property.json", "w"), indent=1)

taken, others = [], []
for m in sorted(glob.glob(os.path.join(root, "seeded", "*", "meta.json"))):
    o = json.load(open(m))
    if o.get("property") == pid:
        taken.append(o["breaks"])
    else:
        others.append(o["breaks"])

T = f"""You are helping to evaluate a verification tool by producing realistic *bug injections* ("seeded changes") for a Go library. Work ONLY inside the scratch git worktree at /tmp/mut/{pid} (a checkout of the library jeroenrinzema/psql-wire, a pure-Go PostgreSQL server-side wire-protocol library). Do NOT read or write anything under /verif or /repo, and do not look for other people's tests or tools outside the worktree. The machine is offline; use the default `go` with: export GOFLAGS=-mod=mod GOPROXY=off GOSUMDB=off

The property that the library is supposed to satisfy is in /tmp/mut/{pid}.property.json (read it: title, statement, quantifier, anchors). Notes in it about "the pinned tree" describe defects that have ALREADY been repaired in this checkout; the current checkout satisfies the property as far as we know. (Calls to verifYield(...) in the code are no-op test hooks; leave them alone.)

Your task: produce TWO different, independent changes to the library's non-test source (each a small realistic edit a developer could plausibly make: a refactor gone wrong, an off-by-one, a dropped check, a "simplification", a shared variable, reordering, a well-meant robustness or performance feature, etc.) such that EACH change:
  1. makes the library VIOLATE the property above;
  2. still compiles, and the existing test suite still passes unedited: `cd /tmp/mut/{pid} && go build ./... && go test -count=1 ./...` (run it 3 times; it must pass);
  3. needs something SPECIFIC to manifest - a particular interleaving, a crash or fault at a particular point, a multi-step sequence of operations, an unusual input, the passage of time, or two cooperating sites that each look fine alone. It must NOT be something that ordinary use (a normal client doing a normal query) would expose at once.
  Prefer subtle changes over blatant ones, and make the two changes different in kind (e.g. different code sites / different clauses of the property).

IMPORTANT - already taken. Earlier rounds produced the changes listed below for this property. Do NOT repeat them or variants of them:
""" + "".join(f"  - {b}\n" for b in taken) + """Also off the table (taken for other properties; do not produce variants of these either):
""" + "".join(f"  - {b}\n" for b in others) + f"""Find changes of a DIFFERENT kind, in different code, ideally harder to notice - e.g. an edge of an arithmetic/length computation, an error path that forgets a step, an ordering of two writes or of a write and a state change, an early return that skips cleanup, a condition that is right for the common value but wrong for a boundary value, a default that differs between two call sites, a timeout or deadline, a retry, a cache.
{focus}

For each change also write a DEMONSTRATION: a Go test (put it in a new file in the library's root package, e.g. mut_demo1_test.go, package wire; you may use net.Pipe / a TCP listener / the pkg/mock client / raw protocol bytes / the race detector as you see fit) or a small program, that FAILS with the change applied and PASSES on the unmodified checkout. Keep demos deterministic where possible (if the demonstration needs a particular interleaving, force it, or loop enough times and say so).

Deliverables, all inside /tmp/mut/{pid}/deliver/ :
  - change1.diff and change2.diff : `git diff` of library source files only (relative to the unmodified HEAD; each diff must apply on its own to a clean checkout with `git apply`; do not include the demo files in them)
  - demo1_test.go and demo2_test.go : the demonstrations (they will be copied into the root package directory to run)
  - NOTES.md : for each change: which clause of the property it breaks, exactly what is needed for it to manifest, the exact commands you ran (build, suite, demo with and without the change) and their outcomes.
  - a one-line deliver/go.mod with `module deliver` (keeps ./... from compiling the demo copies inside deliver/).
Never use `git stash` (the stash is shared by all worktrees of the repository and other people work in sibling worktrees): keep your edits as diff files instead. Before finishing, restore the worktree source to the unmodified state (git checkout -- . ; the deliver/ directory stays), and verify each diff applies cleanly with `git apply --check`.

Report back a short summary (what each change is, what it needs to manifest, and that you verified build + suite + demo-fails-with/passes-without).
"""
open(f"/tmp/mut/{pid}.prompt", "w").write(T)
print(f"/tmp/mut/{pid}.prompt: {len(taken)} taken for {pid}, {len(others)} for other properties")

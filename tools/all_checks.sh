#!/bin/bash
# usage: tools/all_checks.sh quick|thorough [ids...]  - runs the registered checks one after another (never two at a time in one root)
cd "$(dirname "$(readlink -f "$0")")/.." || exit 2
tier=${1:-quick}; shift
ids=${@:-C01 C02 C03 C04 C05 C06 C07 C08 C09 C10 C11 C12 C13 C14 C15 C16 C18 C19}
bad=0
for id in $ids; do
  out=$(./verif check "$id" --tier "$tier" 2>&1); rc=$?
  echo "$out" | grep -E "^(VIOLATION|KNOWN-FINDING|violation:|HARNESS|note:)" | cut -c1-400
  echo "$out" | tail -1 | cut -c1-300
  echo "[$id] exit=$rc"
  [ $rc -ne 0 ] && bad=1
done
exit $bad

#!/bin/bash
# Builds the framework from files on disk only (offline).
set -e
cd "$(dirname "$0")"
. ./env.sh
mkdir -p bin .build evidence
$GO build -o bin/instrument ./cmd/instrument
./verif build
